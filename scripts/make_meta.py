#!/usr/bin/env python3
"""Writes seeded/<seed>/meta.json from notes.md, the verification log of scripts/seed_verify.sh
(/dev/shm/seedverify-<seed>.log) and the detection log of scripts/seed_check.sh
(/dev/shm/seedcheck-<seed>.txt). Existing fields are kept when a log is missing."""
import json, os, re, sys, glob
ROOT = os.path.dirname(os.path.dirname(os.path.abspath(__file__)))
head = os.popen("git -C /repo rev-parse --short HEAD").read().strip()
for d in sorted(glob.glob(os.path.join(ROOT, "seeded", "*"))):
    seed = os.path.basename(d)
    mp = os.path.join(d, "meta.json")
    meta = json.load(open(mp)) if os.path.exists(mp) else {}
    meta["seed"] = seed
    meta["breaks_property"] = re.match(r"(C\d+)", seed).group(1)
    notes = open(os.path.join(d, "notes.md")).read() if os.path.exists(os.path.join(d, "notes.md")) else ""
    title = next((l.strip("# ").strip() for l in notes.splitlines() if l.startswith("#")), "")
    meta["change"] = title
    m = re.search(r"^#+[^\n]*(needed|needs|manifest)[^\n]*\n(.*?)(?=^#+ |\Z)", notes, re.S | re.M | re.I)
    if m:
        meta["needs_to_manifest"] = re.sub(r"\s+", " ", m.group(2)).strip()[:1500]
    meta.setdefault("needs_to_manifest", "see notes.md")
    meta["files"] = sorted(os.listdir(d))
    lp = "/dev/shm/seedverify-%s.log" % seed
    if os.path.exists(lp) and (not os.path.exists(mp) or os.path.getmtime(lp) > os.path.getmtime(mp)):
        # only a verification log newer than the recorded result replaces it (and its repo_head)
        res = dict(re.findall(r"RESULT (\w+)=(\S+)", open(lp).read()))
        prevv = meta.get("verified_in_scratch_worktree", {})
        if res and "suite" not in res and prevv.get("existing_suite_with_patch") in ("pass",):
            # demo-only re-verification on a later HEAD: keep the earlier full-suite result
            prevv.update({"demo_on_unmodified_tree": res.get("demo_unmodified"), "patch_applies": res.get("apply"), "builds": res.get("build"),
                          "demo_with_patch": res.get("demo_patched"), "demo_reverified_at_repo_head": prevv.get("demo_reverified_at_repo_head", head)})
            meta["verified_in_scratch_worktree"] = prevv
        elif res:
            meta["verified_in_scratch_worktree"] = {
                "how": "scripts/seed_verify.sh: git worktree of /repo HEAD outside /repo and /verif; demo on the unmodified tree, git apply patch.diff, go build, demo with the patch, then the full pinned suite with the patch (guard off); worktree removed afterwards",
                "repo_head": meta.get("verified_in_scratch_worktree", {}).get("repo_head", head) if "suite" not in res else head,
                "demo_on_unmodified_tree": res.get("demo_unmodified"),
                "patch_applies": res.get("apply"), "builds": res.get("build"),
                "demo_with_patch": res.get("demo_patched"), "existing_suite_with_patch": res.get("suite", "not run")}
    cp = "/dev/shm/seedcheck-%s.txt" % seed
    if os.path.exists(cp):
        det = {}
        for l in open(cp):
            mm = re.match(r"SEED (\S+) check (\S+) exit=(\d+)\s*(CAUGHT)?\s*(.*)", l)
            if mm:
                det[mm.group(2)] = {"exit": int(mm.group(3)), "caught": bool(mm.group(4)), "message": mm.group(5)[:300]}
        if det:
            prev = meta.get("checks_run_against_it", {}).get("results", {})
            prev.update(det)  # a later run of one check replaces that check's entry only
            det = prev
            meta["checks_run_against_it"] = {"how": "scripts/seed_check.sh: git -C /repo apply patch.diff; python3 check.py <ID> (quick tier unless noted); git -C /repo checkout -- .", "results": det}
    json.dump(meta, open(mp, "w"), indent=1)
    print(seed, meta.get("verified_in_scratch_worktree", {}).get("existing_suite_with_patch"), sorted(meta.get("checks_run_against_it", {}).get("results", {}).items())[:3])
