#!/usr/bin/env python3
"""Regenerates the seeded-change table in DESIGN.md from seeded/*/meta.json."""
import json, glob, os, re
ROOT = os.path.dirname(os.path.dirname(os.path.abspath(__file__)))
rows = []
caught = missed = 0
for mp in sorted(glob.glob(os.path.join(ROOT, "seeded", "*", "meta.json"))):
    m = json.load(open(mp))
    v = m.get("verified_in_scratch_worktree", {})
    res = m.get("checks_run_against_it", {}).get("results", {})
    c = [k for k, r in sorted(res.items()) if r.get("caught")]
    n = [k for k, r in sorted(res.items()) if not r.get("caught")]
    if c:
        caught += 1
    else:
        missed += 1
    change = re.sub(r"^C\d+\s*/\s*m\d\s*[-—–:]*\s*", "", m.get("change", "")).replace("|", "/")[:150]
    rows.append("| %s | %s | %s / %s | %s | %s |" % (m["seed"], change, v.get("demo_with_patch", "?").replace("(expected)", ""), v.get("existing_suite_with_patch", "?"),
                                                 ", ".join(c) or "-", ", ".join(n) or "-"))
table = "| seed | change | demo with patch / suite with patch | caught by (quick tier) | run but not caught |\n|---|---|---|---|---|\n" + "\n".join(rows)
table += "\n\n%d of %d seeded changes are caught by at least one quick check.\n" % (caught, caught + missed)
p = os.path.join(ROOT, "DESIGN.md")
s = open(p).read()
s = re.sub(r"<!-- SEEDTABLE-BEGIN -->.*<!-- SEEDTABLE-END -->", "<!-- SEEDTABLE-BEGIN -->\n" + table + "<!-- SEEDTABLE-END -->", s, flags=re.S)
open(p, "w").write(s)
print("%d caught, %d missed" % (caught, missed))
