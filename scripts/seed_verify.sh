#!/bin/bash
# Usage: seed_verify.sh <seed-id> <dir-with-patch.diff-and-demo_test.go> <demo -run regex> [nosuite]
# Verifies a seeded breaking change in a scratch worktree of /repo HEAD (never in /repo):
#   demo passes on HEAD, patch applies, demo fails with the patch, the existing suite still passes.
set -u
ID=$1; SRC=$2; RUN=$3; NOSUITE=${4:-}
WT=/dev/shm/mw-$ID
OUT=/dev/shm/seedverify-$ID.log
export GOFLAGS=-mod=mod
export TMPDIR=/dev/shm/tmp-$ID; mkdir -p $TMPDIR
: > $OUT
git -C /repo worktree remove --force $WT >/dev/null 2>&1
git -C /repo worktree add -q --detach $WT HEAD || { echo "worktree failed" >> $OUT; exit 2; }
cd $WT
DEMO_DIR=${DEMO_DIR:-.}
cp $SRC/demo_test.go $WT/$DEMO_DIR/zz_seed_demo_test.go
echo "== demo on unmodified HEAD" >> $OUT
if go test -vet=off -count=1 -timeout 10m -run "$RUN" ./$DEMO_DIR >> $OUT 2>&1; then echo "RESULT demo_unmodified=pass" >> $OUT; else echo "RESULT demo_unmodified=FAIL" >> $OUT; fi
if git apply $SRC/patch.diff >> $OUT 2>&1; then echo "RESULT apply=ok" >> $OUT; else echo "RESULT apply=FAIL" >> $OUT; fi
go build ./... >> $OUT 2>&1 && echo "RESULT build=ok" >> $OUT || echo "RESULT build=FAIL" >> $OUT
echo "== demo with patch" >> $OUT
if go test -vet=off -count=1 -timeout 10m -run "$RUN" ./$DEMO_DIR >> $OUT 2>&1; then echo "RESULT demo_patched=pass" >> $OUT; else echo "RESULT demo_patched=fail(expected)" >> $OUT; fi
if [ -z "$NOSUITE" ]; then
  rm -f $WT/$DEMO_DIR/zz_seed_demo_test.go
  echo "== full suite with patch" >> $OUT
  go test -vet=off -count=1 -timeout 40m ./... > $OUT.suite 2>&1
  grep -E "^(ok|FAIL|---|panic)" $OUT.suite >> $OUT
  if grep -E "^(FAIL|--- FAIL|panic)" $OUT.suite | grep -v "TestProtosRegenerate\|badger/v4/pb\|^FAIL$" | grep -q .; then echo "RESULT suite=FAIL" >> $OUT; else echo "RESULT suite=pass" >> $OUT; fi
fi
cd /
git -C /repo worktree remove --force $WT >/dev/null 2>&1
rm -rf $WT $TMPDIR
grep RESULT $OUT | tr '\n' ' '; echo
