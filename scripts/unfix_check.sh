#!/bin/bash
# Usage: unfix_check.sh <fix-commit> <check-id> [more checks]   Reverts one fix: commit in the /repo WORKING TREE only,
# runs the checks (they must report a violation = the pre-fix defect), keeps the first replay under /dev/shm/unfix-<commit>/,
# and restores the working tree.
H=$1; shift
cd /repo || exit 2
git diff --quiet || { echo "repo working tree not clean"; exit 2; }
git show $H | git apply -R || { echo "reverse apply failed"; exit 2; }
mkdir -p /dev/shm/unfix-$H
cd /verif
for c in "$@"; do
  out=$(VERIF_SEED=${VERIF_SEED:-1} python3 check.py $c --tier quick 2>&1)
  rc=$?
  v=$(echo "$out" | grep -m1 "^VIOLATION")
  msg=$(echo "$out" | grep -m1 "^oracle message" | cut -c1-300)
  echo "UNFIX $H check $c exit=$rc ${v:+DETECTED} $msg"
  p=$(echo "$v" | sed -n 's/.*replay=//p')
  [ -n "$p" ] && cp "$p" /dev/shm/unfix-$H/$c.json
done
git -C /repo checkout -- .
rm -rf /verif/replays/_new
