#!/bin/bash
# Usage: seed_check.sh <seed-id> <check-id>...   Applies seeded/<seed-id>/patch.diff to /repo, runs the
# given checks (quick tier unless TIER=thorough), reverts /repo. Prints one line per check.
SEED=$1; shift
cd /repo || exit 2
if ! git diff --quiet; then echo "repo working tree not clean"; exit 2; fi
git apply /verif/seeded/$SEED/patch.diff || { echo "apply failed"; exit 2; }
cd /verif
for c in "$@"; do
  out=$(VERIF_SEED=${VERIF_SEED:-1} python3 check.py $c --tier ${TIER:-quick} 2>&1)
  rc=$?
  v=$(echo "$out" | grep -m1 "^VIOLATION" )
  msg=$(echo "$out" | grep -m1 "^oracle message" | cut -c1-260)
  echo "SEED $SEED check $c exit=$rc ${v:+CAUGHT} $msg"
done
git -C /repo checkout -- .
rm -rf /verif/replays/_new
