#!/bin/bash
H=$1; C=$2; SCALE=$3
cd /repo && git diff --quiet || { echo dirty; exit 2; }
git show $H | git apply -R || exit 2
cd /verif
out=$(VERIF_SEED=${VERIF_SEED:-1} python3 check.py $C --tier quick --scale $SCALE 2>&1)
echo "UNFIX $H $C scale=$SCALE: $(echo "$out" | grep -m1 '^check') :: $(echo "$out" | grep -m1 '^oracle message' | cut -c1-250)"
p=$(echo "$out" | grep -m1 "^VIOLATION" | sed -n 's/.*replay=//p'); mkdir -p /dev/shm/unfix-$H; [ -n "$p" ] && cp "$p" /dev/shm/unfix-$H/$C.json
git -C /repo checkout -- .; rm -rf /verif/replays/_new
