#!/usr/bin/env python3
"""Driver for the badger property checks (property-based testing / fuzzing family).

  python3 check.py <ID> [--tier quick|thorough] [--replay PATH]
  python3 check.py --setup            build all engine binaries (warms the go build cache)

Exit status: 0 property held on everything explored (KNOWN-FINDING lines may be printed),
             1 a violation not listed in known_findings.json (line "VIOLATION property=<id> replay=<path>"),
             2 inconclusive / infrastructure problem (build failure, worker killed by the wall-clock guard).
"""
import argparse, fcntl, glob, hashlib, json, os, shutil, signal, subprocess, sys, tempfile, time

ROOT = os.path.dirname(os.path.abspath(__file__))
HARNESS = os.path.join(ROOT, "harness")
BUILD = os.path.join(HARNESS, ".build")
REPO = "/repo"
GOENV = dict(GOFLAGS="-mod=mod", GOPROXY="off", GOSUMDB="off", GOTOOLCHAIN="local")


def env_with(extra=None):
    e = dict(os.environ)
    e.update(GOENV)
    if extra:
        e.update(extra)
    return e


def load_cfg():
    with open(os.path.join(ROOT, "checks.json")) as f:
        return json.load(f)


def load_known():
    p = os.path.join(ROOT, "known_findings.json")
    if not os.path.exists(p):
        return []
    with open(p) as f:
        return json.load(f).get("findings", [])


def scratch_base():
    return "/dev/shm" if os.path.isdir("/dev/shm") and os.access("/dev/shm", os.W_OK) else tempfile.gettempdir()


def build(engine):
    """Rebuild the engine test binary from /repo's working tree with hooks on."""
    os.makedirs(BUILD, exist_ok=True)
    gomod = os.path.join(HARNESS, "go.mod")
    lock = open(os.path.join(BUILD, ".lock"), "w")
    fcntl.flock(lock, fcntl.LOCK_EX)
    try:
        # go.sum: start from the repository's (the harness adds rapid's lines itself with -mod=mod).
        gosum = os.path.join(HARNESS, "go.sum")
        if not os.path.exists(gosum):
            shutil.copy(os.path.join(REPO, "go.sum"), gosum)
        out = os.path.join(BUILD, engine + ".test")
        tmp = out + ".tmp%d" % os.getpid()
        cmd = ["go", "test", "-c", "-tags", "verif", "-vet=off", "-o", tmp, "./engines/" + engine]
        r = subprocess.run(cmd, cwd=HARNESS, env=env_with(), stdout=subprocess.PIPE, stderr=subprocess.STDOUT, text=True)
        if r.returncode != 0 or not os.path.exists(tmp):
            sys.stdout.write(r.stdout)
            print("BUILD-FAILED engine=%s" % engine)
            return None
        os.replace(tmp, out)
        return out
    finally:
        fcntl.flock(lock, fcntl.LOCK_UN)
        lock.close()


def shard_seed(seed, cid, part, shard):
    h = hashlib.sha256(("%d/%s/%s/%d" % (seed, cid, part, shard)).encode()).digest()
    v = int.from_bytes(h[:7], "big")
    return v or 1


def run_proc(cmd, env, cwd, timeout, logpath):
    """Run one worker; returns (exit status or None when killed by the guard, output tail)."""
    with open(logpath, "w") as log:
        p = subprocess.Popen(cmd, cwd=cwd, env=env, stdout=log, stderr=subprocess.STDOUT, start_new_session=True)
        try:
            rc = p.wait(timeout=timeout)
        except subprocess.TimeoutExpired:
            try:
                os.killpg(p.pid, signal.SIGKILL)
            except ProcessLookupError:
                pass
            p.wait()
            rc = None
    return rc


def tail(path, n=40):
    try:
        with open(path, errors="replace") as f:
            return "".join(f.readlines()[-n:])
    except OSError:
        return ""


def run_replay(binary, test, path, work, timeout=300, extra_env=None):
    """Re-run a saved program without rapid. Returns 'pass' | 'fail' | 'error'."""
    log = os.path.join(work, "replay-%s.log" % hashlib.md5(path.encode()).hexdigest()[:8])
    env = env_with({"VERIF_REPLAY": os.path.abspath(path), "VERIF_EVID_DIR": ""})
    if extra_env:
        env.update(extra_env)
    cwd = os.path.join(work, "cwd-replay")
    os.makedirs(cwd, exist_ok=True)
    rc = run_proc([binary, "-test.run", "^%s$" % test, "-test.timeout", "0", "-test.count", "1"], env, cwd, timeout, log)
    out = tail(log, 4000)
    if "REPLAY-PASS" in out and rc == 0:
        return "pass", out
    if rc is None:
        return "error", out
    if "REPLAY-FAIL" in out or rc != 0:
        return "fail", out
    return "error", out


def binary_for(binaries, cfg, test):
    """Engine binary that contains `test` (parts may live in different engines)."""
    for p in cfg["parts"]:
        if p["test"] == test or test in p.get("aux_tests", []):
            return binaries[p.get("engine", cfg["engine"])]
    return binaries[cfg["engine"]]


def merge_evidence(evdir, cid, cfg, tier, seed, wall, violations, assumptions_extra, fuzz_info):
    parts = {}
    for fn in sorted(glob.glob(os.path.join(evdir, "*.json"))):
        try:
            with open(fn) as f:
                s = json.load(f)
        except (OSError, ValueError):
            continue
        if s.get("id") != cid:
            continue
        p = parts.setdefault(s["part"], dict(rule=s["rule"], evaluations=0, hashes=set(), classes={}, samples=[],
                                             excluded=0, assumptions=[], extra={}))
        p["evaluations"] += s["evaluations"]
        p["hashes"].update(s.get("hashes") or [])
        for k, v in (s.get("classes") or {}).items():
            p["classes"][k] = p["classes"].get(k, 0) + v
        for k, v in (s.get("extra") or {}).items():
            p["extra"][k] = p["extra"].get(k, 0) + v
        for smp in (s.get("samples") or []):
            if len(p["samples"]) < 3:
                p["samples"].append(smp)
        p["excluded"] += s.get("excluded_known", 0)
        for a in (s.get("assumptions") or []):
            if a not in p["assumptions"]:
                p["assumptions"].append(a)
    evaluations = sum(p["evaluations"] for p in parts.values())
    distinct = sum(len(p["hashes"]) for p in parts.values())
    rule = " || ".join("[%s] %s" % (k, p["rule"]) for k, p in sorted(parts.items()))
    samples = []
    for k, p in sorted(parts.items()):
        for smp in p["samples"]:
            samples.append({"part": k, "case": smp})
    assumptions = list(cfg.get("assumptions", [])) + assumptions_extra
    for p in parts.values():
        for a in p["assumptions"]:
            if a not in assumptions:
                assumptions.append(a)
    cov = {
        "evaluations": evaluations,
        "distinct_nontrivial": distinct,
        "rule": rule,
        "samples": samples[:8],
        "excluded_known": sum(p["excluded"] for p in parts.values()),
        "parts": {k: {"evaluations": p["evaluations"], "distinct_nontrivial": len(p["hashes"]),
                      "classes": {c: round(n / max(1, p["evaluations"]), 4) for c, n in sorted(p["classes"].items())},
                      "counters": p["extra"]} for k, p in sorted(parts.items())},
    }
    if fuzz_info:
        cov["native_fuzz"] = fuzz_info
    if cfg.get("exhaustive"):
        cov["exhaustive"] = True
    ev = {"property_id": cid, "tier": tier, "seed": seed, "level": cfg.get("level", "exploration"),
          "coverage": cov, "assumptions": assumptions, "wall_s": round(wall, 2), "violations": violations}
    os.makedirs(os.path.join(ROOT, "evidence"), exist_ok=True)
    tmp = os.path.join(ROOT, "evidence", ".%s.tmp%d" % (cid, os.getpid()))
    with open(tmp, "w") as f:
        json.dump(ev, f, indent=1, sort_keys=True)
        f.write("\n")
    os.replace(tmp, os.path.join(ROOT, "evidence", cid + ".json"))
    return ev


def save_new_replay(cid, seed, src, tag):
    d = os.path.join(ROOT, "replays", "_new")
    os.makedirs(d, exist_ok=True)
    dst = os.path.join(d, "%s-seed%d-%s.json" % (cid, seed, tag))
    shutil.copy(src, dst)
    return dst


def run_fuzz(engine, target, seconds, work):
    """Native go fuzzing (thorough tier only). Returns (crasher path or None, info)."""
    cache = os.path.join(work, "fuzzcache")
    cmd = ["go", "test", "-tags", "verif", "-vet=off", "./engines/" + engine, "-run", "^$", "-fuzz", "^%s$" % target,
           "-fuzztime", "%ds" % seconds, "-test.fuzzcachedir=" + cache]
    log = os.path.join(work, "fuzz-%s.log" % target)
    before = set(glob.glob(os.path.join(HARNESS, "engines", engine, "testdata", "fuzz", target, "*")))
    rc = run_proc(cmd, env_with(), HARNESS, seconds * 4 + 600, log)
    out = tail(log, 60)
    after = set(glob.glob(os.path.join(HARNESS, "engines", engine, "testdata", "fuzz", target, "*")))
    new = sorted(after - before)
    execs = 0
    for line in out.splitlines():
        if "execs:" in line:
            try:
                execs = int(line.split("execs:")[1].split()[0])
            except (ValueError, IndexError):
                pass
    info = {"target": target, "seconds": seconds, "execs": execs, "exit": rc}
    if rc is None:
        return None, info, "timeout"
    if new:
        return new[0], info, out
    if rc != 0:
        return None, info, out
    return None, info, None


def main():
    ap = argparse.ArgumentParser()
    ap.add_argument("id", nargs="?")
    ap.add_argument("--tier", default=os.environ.get("VERIF_TIER") or "quick", choices=["quick", "thorough"])
    ap.add_argument("--replay")
    ap.add_argument("--setup", action="store_true")
    ap.add_argument("--keep", action="store_true", help="keep the scratch work dir")
    ap.add_argument("--scale", type=float, default=1.0, help="multiply case counts (development aid)")
    a = ap.parse_args()
    cfg_all = load_cfg()

    if a.setup:
        ok = True
        for eng in sorted({c["engine"] for c in cfg_all["checks"].values()}):
            t0 = time.time()
            b = build(eng)
            print("setup: engine %-6s %s (%.1fs)" % (eng, "ok" if b else "FAILED", time.time() - t0))
            ok = ok and bool(b)
        return 0 if ok else 2

    cid = a.id
    if cid not in cfg_all["checks"]:
        print("unknown check id", cid)
        return 2
    cfg = cfg_all["checks"][cid]
    tier = a.tier
    try:
        seed = int(os.environ.get("VERIF_SEED", "") or 0)
    except ValueError:
        seed = 0
    if seed == 0:
        seed = 1  # rapid treats 0 as "random"; the checks are a pure function of VERIF_SEED
    t0 = time.time()
    binaries = {}
    for eng in sorted({cfg["engine"]} | {p.get("engine", cfg["engine"]) for p in cfg["parts"]}):
        b = build(eng)
        if not b:
            return 2
        binaries[eng] = b
    binary = binaries
    work = tempfile.mkdtemp(prefix="verif-%s-" % cid, dir=scratch_base())
    os.chmod(work, 0o755)
    try:
        return run_check(cid, cfg, tier, seed, binary, work, a, t0)
    finally:
        if not a.keep:
            shutil.rmtree(work, ignore_errors=True)
        # scratch DBs the engines created under /dev/shm for this run
        for d in glob.glob(os.path.join(scratch_base(), "verif-*-%d-*" % os.getpid())):
            shutil.rmtree(d, ignore_errors=True)


def run_check(cid, cfg, tier, seed, binary, work, a, t0):
    evdir = os.path.join(work, "evid")
    faildir = os.path.join(work, "fail")
    jdir = os.path.join(work, "journal")
    for d in (evdir, faildir, jdir):
        os.makedirs(d)
    base_env = {"VERIF_EVID_DIR": evdir, "VERIF_FAIL_DIR": faildir, "VERIF_JOURNAL_DIR": jdir,
                "VERIF_TIER": tier, "VERIF_SEED": str(seed), "VERIF_SCRATCH": work}

    # ---- explicit replay ---------------------------------------------------------------------
    if a.replay:
        with open(a.replay) as f:
            test = json.load(f)["test"]
        st, out = run_replay(binary_for(binary, cfg, test), test, a.replay, work)
        sys.stdout.write(out[-3000:])
        if st == "fail":
            print("VIOLATION property=%s replay=%s" % (cid, os.path.abspath(a.replay)))
            return 1
        return 0 if st == "pass" else 2

    violations = []   # (replay path, message)
    inconclusive = []
    known = [k for k in load_known() if k.get("property") == cid]

    # ---- regression tier: committed replays, known-finding witnesses ---------------------------
    witness_paths = {os.path.normpath(os.path.join(ROOT, k["witness"])): k for k in known if k.get("witness")}
    for path in sorted(glob.glob(os.path.join(ROOT, "replays", cid, "**", "*.json"), recursive=True)):
        with open(path) as f:
            test = json.load(f)["test"]
        st, out = run_replay(binary_for(binary, cfg, test), test, path, work)
        k = witness_paths.get(os.path.normpath(path))
        if k and k.get("status") == "known":
            if st == "fail" and k.get("match") and k["match"] not in out:
                # the witness fails, but not in the listed way: that is a different violation
                violations.append((path, "known-finding witness fails with an unlisted signature: " + out[-600:]))
            elif st == "fail":
                print("KNOWN-FINDING: property=%s %s [%s]" % (cid, k["what"], k["key"]))
            elif st == "error":
                inconclusive.append("witness %s: %s" % (path, out[-300:]))
            else:
                # listed finding whose witness did not fail in this run (schedule dependent witnesses)
                print("KNOWN-FINDING: property=%s %s [%s] (witness did not reproduce in this run)" % (cid, k["what"], k["key"]))
            continue
        if st == "fail":
            violations.append((path, "committed replay fails: " + out[-400:]))
        elif st == "error":
            inconclusive.append("replay %s: %s" % (path, out[-300:]))

    # ---- campaign ------------------------------------------------------------------------------
    procs = []
    for part in cfg["parts"]:
        n = int(part[tier] * a.scale) if part.get(tier) else 0
        if n <= 0:
            continue
        shards = part.get("shards", {}).get(tier, 1)
        shards = max(1, min(shards, n))
        timeout = part.get("timeout", {}).get(tier, 900 if tier == "quick" else 7200)
        for s in range(shards):
            per = n // shards + (1 if s < n % shards else 0)
            sd = shard_seed(seed, cid, part["test"], s)
            cwd = os.path.join(work, "cwd-%s-%d" % (part["test"], s))
            os.makedirs(cwd)
            env = env_with(dict(base_env, VERIF_CHECKS=str(per), VERIF_SHARD=str(s), VERIF_SHARD_SEED=str(sd)))
            env.update(part.get("env", {}))
            cmd = [binary[part.get("engine", cfg["engine"])], "-test.run", "^%s$" % part["test"], "-test.timeout", "0", "-test.count", "1",
                   "-rapid.checks=%d" % per, "-rapid.seed=%d" % sd, "-rapid.nofailfile",
                   "-rapid.shrinktime=%s" % part.get("shrinktime", "20s")]
            log = os.path.join(work, "%s-%d.log" % (part["test"], s))
            procs.append(dict(part=part, shard=s, cmd=cmd, env=env, cwd=cwd, log=log, timeout=timeout, per=per))

    maxpar = int(os.environ.get("VERIF_JOBS", "16"))
    running, queue = [], list(procs)
    while queue or running:
        while queue and len(running) < maxpar:
            pr = queue.pop(0)
            pr["fh"] = open(pr["log"], "w")
            pr["p"] = subprocess.Popen(pr["cmd"], cwd=pr["cwd"], env=pr["env"], stdout=pr["fh"],
                                       stderr=subprocess.STDOUT, start_new_session=True)
            pr["t0"] = time.time()
            running.append(pr)
        time.sleep(0.05)
        for pr in list(running):
            rc = pr["p"].poll()
            if rc is None and time.time() - pr["t0"] > pr["timeout"]:
                try:
                    os.killpg(pr["p"].pid, signal.SIGKILL)
                except ProcessLookupError:
                    pass
                pr["p"].wait()
                rc = "timeout"
            if rc is None:
                continue
            pr["rc"] = rc
            pr["fh"].close()
            running.remove(pr)

    for pr in procs:
        rc, test = pr["rc"], pr["part"]["test"]
        out = tail(pr["log"], 60)
        pid = pr["p"].pid
        if rc == 0:
            # rapid prints "OK, passed N tests"; a shortfall means the run was cut short.
            continue
        failf = glob.glob(os.path.join(work, "fail", "fail-%s-%d.json" % (test, pid)))
        jf = glob.glob(os.path.join(work, "journal", "journal-%s-%d.json" % (test, pid)))
        if rc == "timeout":
            inconclusive.append("%s shard %d exceeded %ds" % (test, pr["shard"], pr["timeout"]))
        elif failf:
            dst = save_new_replay(cid, seed, failf[0], "%s-%d" % (test, pr["shard"]))
            with open(failf[0]) as f:
                msg = json.load(f).get("message", "")
            violations.append((dst, msg))
        elif jf and ("panic:" in out or "fatal error:" in out or "Assert failed" in out or "exit status" in out
                     or rc not in (0, 1) or "--- FAIL" not in out):
            # the process died inside the code under test while executing the journalled case
            if isinstance(rc, int) and rc < 0 and -rc in (signal.SIGKILL,):
                inconclusive.append("%s shard %d killed by signal %d" % (test, pr["shard"], -rc))
            else:
                dst = save_new_replay(cid, seed, jf[0], "%s-%d-died" % (test, pr["shard"]))
                violations.append((dst, "process died (exit %s) while executing the case: %s" % (rc, out[-600:])))
        else:
            inconclusive.append("%s shard %d exit %s without fail file: %s" % (test, pr["shard"], rc, out[-600:]))

    # ---- native fuzzing (thorough only) ------------------------------------------------------------
    fuzz_info = []
    if tier == "thorough":
        for fz in cfg.get("fuzz", []):
            crasher, info, problem = run_fuzz(cfg["engine"], fz["target"], int(fz["seconds"] * a.scale) or 1, work)
            fuzz_info.append(info)
            if crasher:
                d = os.path.join(ROOT, "replays", "_new")
                os.makedirs(d, exist_ok=True)
                dst = os.path.join(d, "%s-fuzz-%s-%s" % (cid, fz["target"], os.path.basename(crasher)))
                shutil.move(crasher, dst)
                violations.append((dst, "native fuzz crasher: " + (problem or "")[-600:]))
            elif problem:
                inconclusive.append("fuzz %s: %s" % (fz["target"], str(problem)[-400:]))

    wall = time.time() - t0
    ev = merge_evidence(evdir, cid, cfg, tier, seed, wall, len(violations), [], fuzz_info)
    cov = ev["coverage"]
    print("check %s tier=%s seed=%d: evaluations=%d distinct_nontrivial=%d excluded_known=%d wall=%.1fs" % (
        cid, tier, seed, cov["evaluations"], cov["distinct_nontrivial"], cov["excluded_known"], wall))
    for k, p in cov["parts"].items():
        print("  part %-28s evals=%-8d nontrivial=%-8d classes=%s" % (k, p["evaluations"], p["distinct_nontrivial"],
                                                                      json.dumps(p["classes"])))
    if violations:
        path, msg = violations[0]
        print("oracle message: %s" % msg[:1500])
        print("VIOLATION property=%s replay=%s" % (cid, path))
        for path, msg in violations[1:6]:
            print("ALSO property=%s replay=%s" % (cid, path))
        return 1
    if inconclusive:
        for m in inconclusive[:5]:
            print("INCONCLUSIVE: %s" % m)
        return 2
    if cov["evaluations"] == 0:
        print("INCONCLUSIVE: no evidence shards were produced")
        return 2
    return 0


if __name__ == "__main__":
    sys.exit(main())
