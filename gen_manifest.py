#!/usr/bin/env python3
"""Regenerates MANIFEST.json from checks.json and properties.jsonl."""
import json, os, subprocess
ROOT = os.path.dirname(os.path.abspath(__file__))
cfg = json.load(open(os.path.join(ROOT, "checks.json")))
props = [json.loads(l)["id"] for l in open(os.path.join(ROOT, "properties.jsonl")) if l.strip()]
try:
    commits = subprocess.run(["git", "-C", "/repo", "log", "--format=%H %s"], capture_output=True, text=True).stdout.splitlines()
    hook_commits = [c.split()[0] for c in commits if " verif hooks:" in c]
except Exception:
    hook_commits = []
checks = []
for cid in props:
    c = cfg["checks"].get(cid)
    if not c:
        continue
    entry = {
        "property_id": cid,
        "quick_cmd": "python3 check.py %s --tier quick" % cid,
        "thorough_cmd": "python3 check.py %s --tier thorough" % cid,
        "evidence_file": "evidence/%s.json" % cid,
        "replay_cmd_template": "python3 check.py %s --replay {path}" % cid,
        "engine": c["engine"],
        "level_claimed": {"category": c.get("level", "exploration"), "text": c["level_text"], "design_ref": c.get("design_ref", "DESIGN.md §9.3 row " + cid + " (as built), §9.4 findings; §3 " + cid + " (plan)")},
        "level_note": c["level_note"],
        "technique": c["technique"],
    }
    checks.append(entry)
engines = {}
for cid, c in cfg["checks"].items():
    engines.setdefault(c["engine"], []).append(cid)
kinds = {
    "codec": "Go test binary: rapid properties (+ native go fuzz targets in the thorough tier) over codecs, tables, iterators, skiplist, trie, watermark",
    "lsm": "Go test binary: rapid-generated operation programs run against a real DB with the harness owning flush/compaction/GC, compared with a reference MVCC model",
    "conc": "Go test binary: generated concurrent workloads / gated schedules with history checkers",
    "crash": "Go test binary: child-process crash and torn-write injection with recovery oracle",
    "proc": "Go test binary: multi-process directory-lock sequences against a lock model",
}
na = [{"property_id": p, "reason": cfg.get("not_applicable", {}).get(p, "no check built yet in this revision; see DESIGN.md")} for p in props if p not in cfg["checks"]]
m = {
    "version": 1,
    "setup_cmd": "python3 check.py --setup",
    "hooks": {
        "guard": "verif",
        "enable": "go build tag: go test -c -tags verif (harness module replaces github.com/dgraph-io/badger/v4 => /repo)",
        "baseline_off_cmd": "bash scripts/baseline_off.sh",
        "source_commits": hook_commits,
        "add_only": True,
    },
    "engines": [{"name": e, "path": "harness/engines/" + e, "serves_properties": sorted(ids), "kind_free_text": kinds.get(e, "")} for e, ids in sorted(engines.items())],
    "checks": checks,
    "not_applicable": na,
    "notes": "All checks: python3 check.py <ID> --tier quick|thorough (VERIF_SEED honoured; 0/unset -> 1). Exit 2 = inconclusive (build failure / wall-clock guard). Known findings: known_findings.json.",
}
json.dump(m, open(os.path.join(ROOT, "MANIFEST.json"), "w"), indent=1)
print("MANIFEST.json: %d checks, %d not_applicable" % (len(checks), len(na)))
