package conc

import (
	"bytes"
	"context"
	"fmt"
	"os"
	"sort"
	"strings"
	"sync"
	"testing"
	"time"

	badger "github.com/dgraph-io/badger/v4"
	"github.com/dgraph-io/badger/v4/pb"
	"pgregory.net/rapid"

	"verifharness/internal/core"
	"verifharness/internal/dbx"
	"verifharness/internal/evid"
)

// ---- C32: subscribers get every matching committed write exactly once, in commit order ---------------

type subMatch struct {
	Prefix []byte `json:"p"`
	Ignore string `json:"ig,omitempty"`
}

type subWrite struct {
	Key  int  `json:"k"`
	Del  bool `json:"del,omitempty"`
	Meta byte `json:"meta,omitempty"`
	TTL  int  `json:"ttl,omitempty"`
}

type c32Case struct {
	Spec    dbx.Spec       `json:"spec"`
	Keys    [][]byte       `json:"keys"`
	Subs    [][]subMatch   `json:"subs"`
	Before  [][]subWrite   `json:"before"`  // transactions committed before anybody subscribes
	Writers [][][]subWrite `json:"writers"` // per writer goroutine: transactions while subscribed
	After   [][]subWrite   `json:"after"`   // after the subscriptions were cancelled
	Jitter  []byte         `json:"jitter"`
	VPad    int            `json:"vpad,omitempty"` // value padding (pushes values into the value log)
	GC      bool           `json:"gc,omitempty"`   // flush, compact and run value-log GC while subscribed
}

var subAlpha = []byte{'a', 'b', 0x00, 0xFF}

func genIgnoreSpec(t *rapid.T) string {
	n := rapid.IntRange(0, 2).Draw(t, "nign")
	var parts []string
	for i := 0; i < n; i++ {
		a := rapid.IntRange(0, 4).Draw(t, "a")
		if rapid.Bool().Draw(t, "range") {
			parts = append(parts, fmt.Sprintf("%d-%d", a, a+rapid.IntRange(0, 2).Draw(t, "b")))
		} else {
			parts = append(parts, fmt.Sprintf("%d", a))
		}
	}
	return strings.Join(parts, ",")
}

func genC32(t *rapid.T) c32Case {
	var c c32Case
	c.Spec = dbx.Gen(t, dbx.GenCfg{AllowEnc: true, ForceNormal: true, AllowInMemory: true})
	c.Spec.NumVersionsToKeep = 0
	c.Spec.ExternalMagic, c.Spec.ManifestRewriteAt = 0, 0
	c.Spec.DetectConflicts = false // every generated transaction commits
	if c.Spec.InMemory && c.Spec.ValueThreshold < 64 {
		c.Spec.ValueThreshold = 64 // the unique values (up to ~20 bytes) must fit into the in-memory mode's limit
	}
	seen := map[string]bool{}
	for tries := 0; len(c.Keys) < 12 && tries < 100; tries++ {
		k := rapid.SliceOfN(rapid.SampledFrom(subAlpha), 1, 5).Draw(t, "key")
		if !seen[string(k)] {
			seen[string(k)] = true
			c.Keys = append(c.Keys, k)
		}
	}
	genTxn := func() []subWrite {
		var tx []subWrite
		for i, n := 0, rapid.IntRange(1, 4).Draw(t, "nw"); i < n; i++ {
			w := subWrite{Key: rapid.IntRange(0, len(c.Keys)-1).Draw(t, "k"), Meta: rapid.SampledFrom([]byte{0, 0, 5, 0xff}).Draw(t, "meta")}
			w.Del = rapid.IntRange(0, 6).Draw(t, "del") == 0
			if !w.Del && rapid.IntRange(0, 5).Draw(t, "ttl") == 0 {
				w.TTL = 3600
			}
			tx = append(tx, w)
		}
		return tx
	}
	for i, n := 0, rapid.IntRange(1, 4).Draw(t, "nsubs"); i < n; i++ {
		var ms []subMatch
		for j, m := 0, rapid.IntRange(1, 3).Draw(t, "nmatch"); j < m; j++ {
			var p []byte
			switch rapid.IntRange(0, 3).Draw(t, "pk") {
			case 0: // a prefix of a pool key
				k := c.Keys[rapid.IntRange(0, len(c.Keys)-1).Draw(t, "pkey")]
				p = append([]byte{}, k[:rapid.IntRange(0, len(k)).Draw(t, "plen")]...)
			case 1: // a pool key extended by one byte (a pattern longer than the key)
				k := c.Keys[rapid.IntRange(0, len(c.Keys)-1).Draw(t, "pkey")]
				p = append(append([]byte{}, k...), rapid.SampledFrom(subAlpha).Draw(t, "ext"))
			default:
				p = rapid.SliceOfN(rapid.SampledFrom(subAlpha), 0, 4).Draw(t, "prefix")
			}
			ms = append(ms, subMatch{Prefix: p, Ignore: genIgnoreSpec(t)})
		}
		c.Subs = append(c.Subs, ms)
	}
	for i, n := 0, rapid.IntRange(0, 3).Draw(t, "nbefore"); i < n; i++ {
		c.Before = append(c.Before, genTxn())
	}
	for w, nw := 0, rapid.IntRange(1, 4).Draw(t, "nwriters"); w < nw; w++ {
		var txns [][]subWrite
		for i, n := 0, rapid.IntRange(1, 15).Draw(t, "ntx"); i < n; i++ {
			txns = append(txns, genTxn())
		}
		c.Writers = append(c.Writers, txns)
	}
	for i, n := 0, rapid.IntRange(0, 3).Draw(t, "nafter"); i < n; i++ {
		c.After = append(c.After, genTxn())
	}
	c.Jitter = rapid.SliceOfN(rapid.Byte(), 8, 32).Draw(t, "jitter")
	c.VPad = rapid.SampledFrom([]int{0, 0, 40, 120}).Draw(t, "vpad")
	if c.Spec.InMemory {
		c.VPad = 0
	}
	c.GC = !c.Spec.InMemory && rapid.Bool().Draw(t, "gc")
	if c.GC {
		c.Spec.ValueLogMaxEntries = 8 // several value log files, so that GC finds a candidate
	}
	return c
}

// refMatches: the documented semantics - the key is at least as long as the prefix and agrees with
// it at every position that is not listed in the ignore ranges.
func refMatches(m subMatch, key []byte) bool {
	ign := map[int]bool{}
	for _, part := range strings.Split(m.Ignore, ",") {
		part = strings.TrimSpace(part)
		if part == "" {
			continue
		}
		var a, b int
		if strings.Contains(part, "-") {
			fmt.Sscanf(part, "%d-%d", &a, &b)
		} else {
			fmt.Sscanf(part, "%d", &a)
			b = a
		}
		for i := a; i <= b; i++ {
			ign[i] = true
		}
	}
	if len(key) < len(m.Prefix) {
		return false
	}
	for i, b := range m.Prefix {
		if !ign[i] && key[i] != b {
			return false
		}
	}
	return true
}

type gotKV struct {
	key     []byte
	val     []byte
	version uint64
	expires uint64
	meta    byte
}

func runC32(c c32Case, rec *evid.Rec) (core.Result, error) {
	var res core.Result
	dir := core.Scratch("sub")
	defer os.RemoveAll(dir)
	db, err := c.Spec.Open(dir, nil)
	if err != nil {
		return res, fmt.Errorf("open: %v", err)
	}
	defer db.Close()
	installJitter(c.Jitter)
	defer installJitter([]byte{1})
	uniq := 0
	var umu sync.Mutex
	type wrote struct {
		key  []byte
		val  []byte
		del  bool
		exp  uint64
		meta byte
	}
	commit := func(tag string, tx []subWrite) ([]wrote, error) {
		var ws []wrote
		txn := db.NewTransaction(true)
		defer txn.Discard()
		for _, w := range tx {
			umu.Lock()
			uniq++
			v := []byte(fmt.Sprintf("%s-%d", tag, uniq))
			umu.Unlock()
			if c.VPad > 0 {
				v = append(v, bytes.Repeat([]byte{'.'}, c.VPad)...)
			}
			k := append([]byte{}, c.Keys[w.Key%len(c.Keys)]...)
			if int64(len(v)) > c.Spec.ValueThreshold && c.Spec.InMemory {
				v = v[len(v)-int(c.Spec.ValueThreshold):]
			}
			if w.Del {
				if err := txn.Delete(k); err != nil {
					return nil, err
				}
				ws = append(ws, wrote{key: k, del: true})
				continue
			}
			e := badger.NewEntry(k, v).WithMeta(w.Meta)
			if w.TTL > 0 {
				e = e.WithTTL(time.Duration(w.TTL) * time.Second)
			}
			if err := txn.SetEntry(e); err != nil {
				return nil, err
			}
			ws = append(ws, wrote{key: k, val: v, exp: e.ExpiresAt, meta: w.Meta})
		}
		// a later write of the same key inside one transaction replaces the earlier one
		var final []wrote
		for i, w := range ws {
			replaced := false
			for _, x := range ws[i+1:] {
				if bytes.Equal(x.key, w.key) {
					replaced = true
				}
			}
			if !replaced {
				final = append(final, w)
			}
		}
		return final, txn.Commit()
	}
	for i, tx := range c.Before {
		if _, err := commit(fmt.Sprintf("before%d", i), tx); err != nil {
			return res, fmt.Errorf("commit before subscribing: %v", err)
		}
	}
	// subscribe
	type subState struct {
		mu   sync.Mutex
		got  []gotKV
		done chan error
	}
	subs := make([]*subState, len(c.Subs))
	cancels := make([]context.CancelFunc, len(c.Subs))
	for i, ms := range c.Subs {
		st := &subState{done: make(chan error, 1)}
		subs[i] = st
		ctx, cancel := context.WithCancel(context.Background())
		cancels[i] = cancel
		var matches []pb.Match
		for _, m := range ms {
			matches = append(matches, pb.Match{Prefix: m.Prefix, IgnoreBytes: m.Ignore})
		}
		go func() {
			st.done <- db.Subscribe(ctx, func(kvs *badger.KVList) error {
				st.mu.Lock()
				defer st.mu.Unlock()
				for _, kv := range kvs.Kv {
					var meta byte
					if len(kv.Meta) > 0 {
						meta = kv.Meta[0]
					}
					st.got = append(st.got, gotKV{key: append([]byte{}, kv.Key...), val: append([]byte{}, kv.Value...), version: kv.Version, expires: kv.ExpiresAt, meta: meta})
				}
				return nil
			}, matches)
		}()
	}
	deadline := time.Now().Add(30 * time.Second)
	for db.VerifNumSubscribers() < len(c.Subs) {
		if time.Now().After(deadline) {
			return res, fmt.Errorf("only %d of %d subscriptions were registered within 30 s", db.VerifNumSubscribers(), len(c.Subs))
		}
		time.Sleep(100 * time.Microsecond)
	}
	// concurrent committers
	var all []wrote
	var amu sync.Mutex
	var wg sync.WaitGroup
	var werr error
	for w := range c.Writers {
		wg.Add(1)
		go func(w int) {
			defer wg.Done()
			for i, tx := range c.Writers[w] {
				ws, err := commit(fmt.Sprintf("w%d.%d", w, i), tx)
				amu.Lock()
				if err != nil && werr == nil {
					werr = err
				}
				all = append(all, ws...)
				amu.Unlock()
			}
		}(w)
	}
	wg.Wait()
	if werr != nil {
		return res, fmt.Errorf("commit: %v", werr)
	}
	gcRewrote := false
	if c.GC {
		// maintenance while subscribed: a flush, a compaction (discard statistics) and value-log GC,
		// whose rewrite moves live entries through the write path again. None of this is a write
		// "committed after the subscription": subscribers must not hear of it.
		if _, err := dbx.Flush(db); err != nil {
			return res, err
		}
		if err, _ := db.VerifCompact(1, badger.VerifPrio{Level: 0, Score: 2, Adjusted: 2}); err != nil {
			return res, fmt.Errorf("compaction: %v", err)
		}
		for i := 0; i < 4; i++ {
			if err := db.RunValueLogGC(0.001); err != nil {
				break
			}
			gcRewrote = true
		}
	}
	// versions from the store itself
	type kv struct {
		k string
		v string
	}
	verOf := map[kv]uint64{}
	delVers := map[string][]uint64{}
	rd := db.NewTransaction(false)
	it := rd.NewIterator(badger.IteratorOptions{AllVersions: true})
	for it.Rewind(); it.Valid(); it.Next() {
		item := it.Item()
		if item.IsDeletedOrExpired() && item.ExpiresAt() == 0 {
			delVers[string(item.Key())] = append(delVers[string(item.Key())], item.Version())
			continue
		}
		v, _ := item.ValueCopy(nil)
		verOf[kv{string(item.Key()), string(v)}] = item.Version()
	}
	it.Close()
	rd.Discard()
	// expected per subscriber
	want := make([]map[string]int, len(c.Subs)) // "key|value-or-DEL" -> count
	total := 0
	for i, ms := range c.Subs {
		want[i] = map[string]int{}
		for _, w := range all {
			match := false
			for _, m := range ms {
				if refMatches(m, w.key) {
					match = true
				}
			}
			if match {
				id := fmt.Sprintf("%x|%s", w.key, w.val)
				if w.del {
					id = fmt.Sprintf("%x|DEL", w.key)
				}
				want[i][id]++
				total++
			}
		}
	}
	// wait for the deliveries (they are asynchronous), then cancel
	deadline = time.Now().Add(30 * time.Second)
	for {
		ok := true
		for i, st := range subs {
			n := 0
			for _, cnt := range want[i] {
				n += cnt
			}
			st.mu.Lock()
			g := 0
			for _, x := range st.got {
				if !bytes.HasPrefix(x.key, []byte("!badger!")) {
					g++
				}
			}
			st.mu.Unlock()
			if g < n {
				ok = false
			}
		}
		if ok || time.Now().After(deadline) {
			break
		}
		time.Sleep(200 * time.Microsecond)
	}
	time.Sleep(2 * time.Millisecond) // anything delivered in excess would arrive now
	for i := range subs {
		cancels[i]()
		select {
		case <-subs[i].done:
		case <-time.After(60 * time.Second):
			return res, fmt.Errorf("Subscribe of subscriber %d did not return within 60 s of its cancellation", i)
		}
	}
	for i, tx := range c.After {
		if _, err := commit(fmt.Sprintf("after%d", i), tx); err != nil {
			return res, fmt.Errorf("commit after cancellation: %v", err)
		}
	}
	for i, st := range subs {
		st.mu.Lock()
		got := map[string]int{}
		var lastVer uint64
		for _, x := range st.got {
			if bytes.HasPrefix(x.key, []byte("!badger!")) {
				continue // internal transaction marker, not a user key
			}
			id := fmt.Sprintf("%x|%s", x.key, x.val)
			isDel := len(x.val) == 0
			if isDel {
				id = fmt.Sprintf("%x|DEL", x.key)
			}
			got[id]++
			match := false
			for _, m := range c.Subs[i] {
				if refMatches(m, x.key) {
					match = true
				}
			}
			if !match {
				st.mu.Unlock()
				return res, fmt.Errorf("subscriber %d (patterns %s) received key %x, which matches none of its patterns", i, descMatches(c.Subs[i]), x.key)
			}
			if x.version < lastVer {
				st.mu.Unlock()
				return res, fmt.Errorf("subscriber %d received version %d after version %d (not in commit order)", i, x.version, lastVer)
			}
			lastVer = x.version
			if isDel {
				found := false
				for _, v := range delVers[string(x.key)] {
					if v == x.version {
						found = true
					}
				}
				if !found && !c.GC {
					st.mu.Unlock()
					return res, fmt.Errorf("subscriber %d received a delete of %x at version %d, the store has none at that version", i, x.key, x.version)
				}
			} else if v, ok := verOf[kv{string(x.key), string(x.val)}]; (!ok && !c.GC) || (ok && v != x.version) {
				// (with the GC phase a compaction may have dropped the version from the store meanwhile)
				st.mu.Unlock()
				return res, fmt.Errorf("subscriber %d received %x = %q at version %d, the store has it at version %d (found %v)", i, x.key, x.val, x.version, v, ok)
			}
			if strings.HasPrefix(string(x.val), "before") || strings.HasPrefix(string(x.val), "after") {
				st.mu.Unlock()
				return res, fmt.Errorf("subscriber %d received %x = %q, which was committed outside its subscription", i, x.key, x.val)
			}
		}
		st.mu.Unlock()
		for id, n := range want[i] {
			if got[id] != n {
				return res, fmt.Errorf("subscriber %d (patterns %s): update %s was committed %d time(s) while it was subscribed, received %d time(s)", i, descMatches(c.Subs[i]), id, n, got[id])
			}
		}
		for id, n := range got {
			if want[i][id] == 0 {
				return res, fmt.Errorf("subscriber %d (patterns %s) received %s %d time(s), expected none", i, descMatches(c.Subs[i]), id, n)
			}
		}
	}
	for _, w := range all {
		if !w.del && !c.GC {
			if _, ok := verOf[kv{string(w.key), string(w.val)}]; !ok {
				return res, fmt.Errorf("committed write %x=%q is not in the store", w.key, w.val)
			}
		}
	}
	rec.Add("expected_deliveries", total)
	cls := func(b bool, n string) {
		if b {
			res.Classes = append(res.Classes, n)
		}
	}
	ign := false
	for _, ms := range c.Subs {
		for _, m := range ms {
			if m.Ignore != "" {
				ign = true
			}
		}
	}
	cls(ign, "ignore_ranges")
	cls(len(c.Writers) > 1, "concurrent_committers")
	cls(len(c.Subs) > 1, "several_subscribers")
	cls(total > 0, "deliveries")
	cls(gcRewrote, "value_log_gc_rewrote_while_subscribed")
	res.NonTrivial = total >= 3 && len(all) > total/len(c.Subs)
	return res, nil
}

func descMatches(ms []subMatch) string {
	var parts []string
	for _, m := range ms {
		parts = append(parts, fmt.Sprintf("%x/%q", m.Prefix, m.Ignore))
	}
	sort.Strings(parts)
	return strings.Join(parts, " ")
}

func TestC32_Subscribe(t *testing.T) {
	core.Run(t, "C32", "subscribe",
		"rapid-generated scenarios: 1-4 subscribers with 1-3 patterns each (prefixes of pool keys, pool keys extended by one byte, random prefixes over {a,b,0x00,0xFF}; ignore specs like \"1\", \"0-2,4\"), transactions committed before subscribing, 1-4 concurrent committer goroutines (1-15 transactions of 1-4 sets/deletes with user meta and TTLs, unique values) while subscribed, transactions after cancellation; optionally values in the value log and a flush + compaction + value-log GC (rewrite) while subscribed; jitter at the commit hooks. Oracle: an independent matcher of the documented pattern semantics decides which committed writes each subscriber must receive; each must arrive exactly once with the key, value, user meta, expiry and the version the store holds, in non-decreasing version order; nothing that matches no pattern, nothing committed before the subscription or after its cancellation; Subscribe returns after cancellation. Non-trivial = >=3 expected deliveries and some writes that must not be delivered.",
		genC32, runC32)
}
