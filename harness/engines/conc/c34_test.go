package conc

import (
	"context"
	"fmt"
	"runtime"
	"sort"
	"sync"
	"testing"
	"time"

	"github.com/dgraph-io/badger/v4/y"
	"github.com/dgraph-io/ristretto/v2/z"
	"pgregory.net/rapid"

	"verifharness/internal/core"
	"verifharness/internal/evid"
)

// ---- C34 (watermark part): a WaterMark never reports a pending index as done, releases waiters ----

type wmOp struct {
	Kind string `json:"k"` // begin, beginmany, done, donemany, wait, yield
	A    int    `json:"a,omitempty"`
	B    int    `json:"b,omitempty"`
}

type wmCase struct {
	Ops     []wmOp `json:"ops"`
	Workers int    `json:"workers"` // phase 2: oracle-style concurrent users
	PerW    int    `json:"perw"`
	Jitter  []byte `json:"jitter"`
}

func genWM(t *rapid.T) wmCase {
	var c wmCase
	kinds := []string{"begin", "begin", "begin", "beginmany", "done", "done", "done", "donemany", "wait", "wait", "yield"}
	for i, n := 0, rapid.IntRange(3, 60).Draw(t, "nops"); i < n; i++ {
		c.Ops = append(c.Ops, wmOp{Kind: rapid.SampledFrom(kinds).Draw(t, "kind"), A: rapid.IntRange(0, 7).Draw(t, "a"), B: rapid.IntRange(0, 7).Draw(t, "b")})
	}
	c.Workers = rapid.IntRange(0, 6).Draw(t, "workers")
	c.PerW = rapid.IntRange(1, 30).Draw(t, "perw")
	c.Jitter = rapid.SliceOfN(rapid.Byte(), 4, 32).Draw(t, "jitter")
	return c
}

func runWM(c wmCase, rec *evid.Rec) (core.Result, error) {
	var res core.Result
	closer := z.NewCloser(1)
	w := &y.WaterMark{Name: "verif"}
	w.Init(closer)
	defer closer.SignalAndWait()

	var mu sync.Mutex // guards the model
	pending := map[uint64]int{}
	var last uint64
	var lastSeen uint64
	var fail error
	setFail := func(err error) {
		if fail == nil {
			fail = err
		}
	}
	// safety: DoneUntil is below every index that was begun (Begin returned) and not yet handed to Done
	checkSafety := func(where string) {
		du := w.DoneUntil()
		if du < lastSeen {
			setFail(fmt.Errorf("%s: DoneUntil went backwards: %d after %d", where, du, lastSeen))
		}
		lastSeen = du
		for idx, n := range pending {
			if n > 0 && du >= idx {
				setFail(fmt.Errorf("%s: DoneUntil() = %d although index %d was begun and is not done (%d pending)", where, du, idx, n))
			}
		}
		if du > last {
			setFail(fmt.Errorf("%s: DoneUntil() = %d is above the last begun index %d", where, du, last))
		}
	}
	pendingList := func() []uint64 {
		var l []uint64
		for idx, n := range pending {
			for i := 0; i < n; i++ {
				l = append(l, idx)
			}
		}
		sort.Slice(l, func(i, j int) bool { return l[i] < l[j] })
		return l
	}
	var wg sync.WaitGroup
	waiters, waitersEarly := 0, 0
	released := make(chan struct{}, 1024)
	startWaiter := func(idx uint64) {
		waiters++
		wg.Add(1)
		go func() {
			defer wg.Done()
			ctx, cancel := context.WithTimeout(context.Background(), 60*time.Second)
			defer cancel()
			err := w.WaitForMark(ctx, idx)
			mu.Lock()
			defer mu.Unlock()
			if err != nil {
				setFail(fmt.Errorf("a reader waiting for index %d was not released within 60 s although every index at or below it is done (DoneUntil %d): %v", idx, w.DoneUntil(), err))
				return
			}
			if du := w.DoneUntil(); du < idx {
				setFail(fmt.Errorf("WaitForMark(%d) returned while DoneUntil() = %d", idx, du))
			}
			for i, n := range pending {
				if n > 0 && i <= idx {
					setFail(fmt.Errorf("WaitForMark(%d) returned although index %d is begun and not done", idx, i))
				}
			}
			released <- struct{}{}
		}()
	}
	for i, op := range c.Ops {
		mu.Lock()
		where := fmt.Sprintf("op %d (%s)", i, op.Kind)
		switch op.Kind {
		case "begin":
			idx := last + uint64(op.A%3)
			if idx == last && pending[last] == 0 {
				// beginning an index again is only meaningful while it is still pending; an index
				// that is done already (DoneUntil may have reached it) is not begun a second time
				idx = last + 1
			}
			pending[idx]++
			last = idx
			w.Begin(idx)
		case "beginmany":
			var l []uint64
			idx := last
			for j := 0; j <= op.B%3; j++ {
				idx += uint64(1 + (op.A+j)%2)
				l = append(l, idx)
				pending[idx]++
			}
			last = idx
			w.BeginMany(l)
		case "done":
			if l := pendingList(); len(l) > 0 {
				idx := l[op.A%len(l)]
				pending[idx]--
				w.Done(idx)
			}
		case "donemany":
			l := pendingList()
			var d []uint64
			for j := 0; j <= op.B%3 && len(l) > 0; j++ {
				k := (op.A + j*3) % len(l)
				d = append(d, l[k])
				pending[l[k]]--
				l = append(l[:k], l[k+1:]...)
			}
			if len(d) > 0 {
				w.DoneMany(d)
			}
		case "wait":
			if last > 0 {
				idx := 1 + uint64(op.A)%last
				if w.DoneUntil() >= idx {
					waitersEarly++
				}
				startWaiter(idx)
			}
		case "yield":
			mu.Unlock()
			runtime.Gosched()
			time.Sleep(time.Duration(op.A) * 10 * time.Microsecond)
			mu.Lock()
		}
		checkSafety(where)
		mu.Unlock()
		if fail != nil {
			break
		}
	}
	// finish everything that is still pending, in a generated order
	mu.Lock()
	for _, idx := range pendingList() {
		pending[idx]--
		w.Done(idx)
		checkSafety("final done")
	}
	finalLast := last
	mu.Unlock()
	// liveness: the mark reaches the last index and every waiter returns
	deadline := time.Now().Add(60 * time.Second)
	for w.DoneUntil() < finalLast && time.Now().Before(deadline) {
		time.Sleep(50 * time.Microsecond)
	}
	if du := w.DoneUntil(); du != finalLast && fail == nil {
		fail = fmt.Errorf("every begun index is done, but DoneUntil() stays at %d (last index %d) for 60 s", du, finalLast)
	}
	wg.Wait()
	if fail != nil {
		return res, fail
	}
	// phase 2: oracle-style use from several goroutines (indices begun in order under a lock)
	var next uint64 = finalLast
	var begMu sync.Mutex
	var wg2 sync.WaitGroup
	errCh := make(chan error, 64)
	for g := 0; g < c.Workers; g++ {
		wg2.Add(1)
		go func(g int) {
			defer wg2.Done()
			for i := 0; i < c.PerW; i++ {
				begMu.Lock()
				next++
				idx := next
				w.Begin(idx)
				begMu.Unlock()
				j := c.Jitter[(g*7+i)%len(c.Jitter)]
				if j%2 == 0 {
					runtime.Gosched()
				}
				if du := w.DoneUntil(); du >= idx {
					errCh <- fmt.Errorf("concurrent phase: DoneUntil() = %d while index %d is begun and not done", du, idx)
					w.Done(idx)
					return
				}
				if j%5 == 0 {
					// a reader waits for everything below
					ctx, cancel := context.WithTimeout(context.Background(), 60*time.Second)
					if idx > 1 {
						go func() { defer cancel(); _ = w.WaitForMark(ctx, idx-1) }()
					} else {
						cancel()
					}
				}
				w.Done(idx)
			}
		}(g)
	}
	wg2.Wait()
	select {
	case err := <-errCh:
		return res, err
	default:
	}
	deadline = time.Now().Add(60 * time.Second)
	for w.DoneUntil() < next && time.Now().Before(deadline) {
		time.Sleep(50 * time.Microsecond)
	}
	if du := w.DoneUntil(); du != next {
		return res, fmt.Errorf("concurrent phase: all %d indices are done, DoneUntil() stays at %d", next, du)
	}
	rec.Add("waiters", waiters)
	rec.Add("waiters_already_satisfied", waitersEarly)
	if waiters > waitersEarly {
		res.Classes = append(res.Classes, "waiter_had_to_block")
	}
	if c.Workers > 1 {
		res.Classes = append(res.Classes, "concurrent_phase")
	}
	res.NonTrivial = waiters > waitersEarly && len(c.Ops) >= 6
	return res, nil
}

func TestC34_WaterMark(t *testing.T) {
	core.Run(t, "C34", "watermark",
		"rapid-generated call sequences on y.WaterMark: Begin (same or higher index), BeginMany, Done / DoneMany of generated pending indices (also out of order), WaitForMark from reader goroutines for generated indices at or below the last begun one, yields; then an oracle-style concurrent phase (0-6 goroutines begin consecutive indices under a lock, check, optionally wait for the index below, finish). Oracle (reference model of pending counts): after every call DoneUntil() is monotone, never at or above an index that is begun and not handed to Done, never above the last begun index; WaitForMark returns only when every begun index at or below its argument is done; after all indices are done DoneUntil() reaches the last index and every waiter has returned (60 s bound, normal completion takes microseconds). Non-trivial = >=1 waiter had to block.",
		genWM, runWM)
}
