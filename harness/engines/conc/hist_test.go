// Package conc holds the checks over concurrent histories: real goroutines drive the public API
// (with the production background flusher and compactors running), every call is recorded with
// logical invocation/return stamps, and schedule-independent invariants are evaluated over the
// recorded history and the final all-versions state. Schedules are perturbed at the verif hook
// points by generated jitter bytes.
package conc

import (
	"bytes"
	"encoding/binary"
	"fmt"
	"math"
	"os"
	"runtime"
	"sort"
	"sync"
	"sync/atomic"
	"testing"
	"time"

	badger "github.com/dgraph-io/badger/v4"
	"github.com/dgraph-io/badger/v4/pb"
	"github.com/dgraph-io/badger/v4/y"
	"google.golang.org/protobuf/proto"
	"pgregory.net/rapid"

	"verifharness/internal/core"
	"verifharness/internal/dbx"
	"verifharness/internal/evid"
)

type wTxn struct {
	Reads  []int `json:"r,omitempty"`
	Writes []int `json:"w"`
	VSize  int   `json:"vs"`
	Async  bool  `json:"async,omitempty"` // CommitWith
	Big    bool  `json:"big,omitempty"`   // too many writes for one transaction: must be rejected without a trace
	Rotate bool  `json:"rot,omitempty"`   // mark the memtable full first: the commit spans a rotation (and a flush)
}

type histProg struct {
	Spec    dbx.Spec `json:"spec"`
	NKeys   int      `json:"nkeys"`
	Writers [][]wTxn `json:"writers"`
	Readers int      `json:"readers"`
	Scans   int      `json:"scans"`
	Jitter  []byte   `json:"jitter"`
	Compact bool     `json:"compactors"`
	Preload bool     `json:"preload,omitempty"` // DB.Load of a small backup right before the workload starts
}

func genHist(t *rapid.T) histProg {
	var p histProg
	p.Spec = dbx.Gen(t, dbx.GenCfg{AllowEnc: true, ForceNormal: true})
	p.Spec.InMemory = false
	p.Spec.NumVersionsToKeep = 0 // unbounded: the final all-versions scan is the ground truth
	p.Spec.ExternalMagic, p.Spec.ManifestRewriteAt = 0, 0
	p.Spec.MemTableSize = rapid.SampledFrom([]int64{1 << 13, 1 << 14, 1 << 16}).Draw(t, "memtable2")
	if p.Spec.ValueThreshold > p.Spec.MemTableSize*15/100 {
		p.Spec.ValueThreshold = 32
	}
	p.Spec.NumMemtables = rapid.SampledFrom([]int{1, 2, 5}).Draw(t, "nmem2")
	p.NKeys = rapid.IntRange(2, 12).Draw(t, "nkeys")
	p.Compact = rapid.IntRange(0, 3).Draw(t, "compactors") > 0
	nw := rapid.IntRange(2, 6).Draw(t, "writers")
	for w := 0; w < nw; w++ {
		var txns []wTxn
		for i, n := 0, rapid.IntRange(1, 25).Draw(t, "ntxns"); i < n; i++ {
			var tx wTxn
			for j, m := 0, rapid.IntRange(0, 3).Draw(t, "nreads"); j < m; j++ {
				tx.Reads = append(tx.Reads, rapid.IntRange(0, p.NKeys-1).Draw(t, "rk"))
			}
			for j, m := 0, rapid.IntRange(1, 4).Draw(t, "nwrites"); j < m; j++ {
				tx.Writes = append(tx.Writes, rapid.IntRange(0, p.NKeys-1).Draw(t, "wk"))
			}
			tx.VSize = rapid.SampledFrom([]int{10, 10, 31, 33, 70, 300}).Draw(t, "vsize")
			if max := int(p.Spec.MemTableSize / 48); tx.VSize > max {
				tx.VSize = max
			}
			tx.Async = rapid.IntRange(0, 3).Draw(t, "async") == 0
			tx.Big = rapid.IntRange(0, 30).Draw(t, "big") == 0
			tx.Rotate = rapid.IntRange(0, 7).Draw(t, "rotate") == 0
			txns = append(txns, tx)
		}
		p.Writers = append(p.Writers, txns)
	}
	p.Readers = rapid.IntRange(1, 4).Draw(t, "readers")
	p.Scans = rapid.IntRange(1, 12).Draw(t, "scans")
	p.Jitter = rapid.SliceOfN(rapid.Byte(), 8, 64).Draw(t, "jitter")
	p.Preload = rapid.Bool().Draw(t, "preload")
	return p
}

func keyOf(i int) []byte { return []byte(fmt.Sprintf("k%02d", i)) }

// value = writer(2) seq(4) payload
func mkVal(w, seq, size int) []byte {
	if size < 8 {
		size = 8
	}
	v := make([]byte, size)
	binary.BigEndian.PutUint16(v, uint16(w))
	binary.BigEndian.PutUint32(v[2:], uint32(seq))
	for i := 6; i < size; i++ {
		v[i] = byte(w*31 + seq*7 + i)
	}
	return v
}

func txnOf(v []byte) (int, int, bool) {
	if len(v) < 8 {
		return 0, 0, false
	}
	w, s := int(binary.BigEndian.Uint16(v)), int(binary.BigEndian.Uint32(v[2:]))
	return w, s, bytes.Equal(v, mkVal(w, s, len(v)))
}

type obs struct {
	key   int
	found bool
	w, s  int
	ver   uint64
	own   bool
}

type event struct {
	w, s     int
	reader   bool
	inv, ret int64 // logical stamps: Commit invoked / returned (readers: transaction created / finished)
	pre      int64 // stamp right before the transaction was created
	begun    int64 // stamp right after the transaction was created
	readTs   uint64
	err      error
	obs      []obs
	writes   []int
	big      bool
}

func startOf(e *event) int64 {
	if e.reader {
		return e.inv
	}
	return e.pre
}

func installJitter(j []byte) {
	var n atomic.Uint64
	y.VerifSetPointFn(func(name string) {
		b := j[int(n.Add(1))%len(j)]
		switch {
		case b%4 == 0:
			runtime.Gosched()
		case b%32 == 1:
			time.Sleep(20 * time.Microsecond)
		}
	})
}

func runHist(p histProg, rec *evid.Rec) (core.Result, error) {
	var res core.Result
	dir := core.Scratch("conc")
	defer os.RemoveAll(dir)
	db, err := p.Spec.Open(dir, func(o *badger.Options) {
		if p.Compact {
			o.NumCompactors = 2
		}
		o.NumLevelZeroTablesStall = 15
		if !p.Compact {
			o.NumLevelZeroTablesStall = 100000 // nobody would ever relieve a stall
		}
	})
	if err != nil {
		return res, fmt.Errorf("open: %v", err)
	}
	closed := false
	defer func() {
		y.VerifSetPointFn(nil)
		if !closed {
			db.Close()
		}
	}()
	if p.Preload {
		// a restore right before the workload: the first commits after DB.Load race with the readers
		list := &pb.KVList{}
		for i := 0; i < 5; i++ {
			list.Kv = append(list.Kv, &pb.KV{Key: []byte(fmt.Sprintf("p%02d", i)), Value: []byte("preloaded"), Version: uint64(3 + i%2), UserMeta: []byte{0}, Meta: []byte{0}})
		}
		raw, err := proto.Marshal(list)
		if err != nil {
			return res, err
		}
		var buf bytes.Buffer
		binary.Write(&buf, binary.LittleEndian, uint64(len(raw)))
		buf.Write(raw)
		if err := db.Load(&buf, 4); err != nil {
			return res, fmt.Errorf("Load: %v", err)
		}
	}
	installJitter(p.Jitter)
	var stamp atomic.Int64
	var mu sync.Mutex
	var events []*event
	add := func(e *event) {
		mu.Lock()
		events = append(events, e)
		mu.Unlock()
	}
	var wg sync.WaitGroup
	var writersDone atomic.Int32
	for w := range p.Writers {
		wg.Add(1)
		go func(w int) {
			defer wg.Done()
			defer writersDone.Add(1)
			for s, tx := range p.Writers[w] {
				e := &event{w: w, s: s, writes: tx.Writes, big: tx.Big}
				e.pre = stamp.Add(1)
				txn := db.NewTransaction(true)
				e.begun = stamp.Add(1)
				e.readTs = txn.ReadTs()
				var opErr error
				for _, k := range tx.Reads {
					item, err := txn.Get(keyOf(k))
					o := obs{key: k}
					if err == nil {
						v, err2 := item.ValueCopy(nil)
						if err2 != nil {
							opErr = fmt.Errorf("ValueCopy: %v", err2)
							break
						}
						ow, os_, ok := txnOf(v)
						if !ok {
							opErr = fmt.Errorf("key %s@%d holds a value nobody wrote (len %d)", keyOf(k), item.Version(), len(v))
							break
						}
						o.found, o.w, o.s, o.ver = true, ow, os_, item.Version()
					} else if err != badger.ErrKeyNotFound {
						opErr = fmt.Errorf("Get: %v", err)
						break
					}
					e.obs = append(e.obs, o)
				}
				if opErr == nil {
					for _, k := range tx.Writes {
						if err := txn.Set(keyOf(k), mkVal(w, s, tx.VSize)); err != nil {
							opErr = err
							break
						}
					}
				}
				if opErr == nil && tx.Big {
					// overflow the transaction: badger must reject it (ErrTxnTooBig) and nothing of it may surface
					for i := 0; i < 100000 && opErr == nil; i++ {
						opErr = txn.Set([]byte(fmt.Sprintf("big-%d-%d-%06d", w, s, i)), mkVal(w, s, 64))
					}
					if opErr == nil {
						opErr = fmt.Errorf("a transaction of 100000 extra writes was not rejected")
					}
				}
				if opErr != nil {
					e.inv = stamp.Add(1)
					e.err = opErr
					txn.Discard()
					e.ret = stamp.Add(1)
					add(e)
					continue
				}
				if tx.Rotate {
					db.VerifMarkFull()
				}
				e.inv = stamp.Add(1)
				if tx.Async {
					done := make(chan error, 1)
					txn.CommitWith(func(err error) { done <- err })
					e.err = <-done
				} else {
					e.err = txn.Commit()
				}
				e.ret = stamp.Add(1)
				txn.Discard()
				add(e)
			}
		}(w)
	}
	for r := 0; r < p.Readers; r++ {
		wg.Add(1)
		go func(r int) {
			defer wg.Done()
			for i := 0; i < p.Scans || (writersDone.Load() < int32(len(p.Writers)) && i < 400); i++ {
				e := &event{reader: true, w: r, s: i}
				e.inv = stamp.Add(1)
				txn := db.NewTransaction(false)
				e.begun = stamp.Add(1)
				e.readTs = txn.ReadTs()
				if i%2 == 0 {
					it := txn.NewIterator(badger.DefaultIteratorOptions)
					seen := map[int]bool{}
					for it.Rewind(); it.Valid(); it.Next() {
						item := it.Item()
						var k int
						if _, err := fmt.Sscanf(string(item.Key()), "k%02d", &k); err != nil {
							continue // a "big-" key would be a trace of a rejected transaction: caught by the final scan
						}
						v, err := item.ValueCopy(nil)
						if err != nil {
							e.err = fmt.Errorf("ValueCopy: %v", err)
							break
						}
						ow, os_, ok := txnOf(v)
						if !ok {
							e.err = fmt.Errorf("key %s@%d holds a value nobody wrote (len %d)", item.Key(), item.Version(), len(v))
							break
						}
						seen[k] = true
						e.obs = append(e.obs, obs{key: k, found: true, w: ow, s: os_, ver: item.Version()})
					}
					it.Close()
					for k := 0; k < p.NKeys; k++ {
						if !seen[k] {
							e.obs = append(e.obs, obs{key: k})
						}
					}
				} else {
					for k := 0; k < p.NKeys; k++ {
						item, err := txn.Get(keyOf(k))
						o := obs{key: k}
						if err == nil {
							v, err2 := item.ValueCopy(nil)
							ow, os_, ok := txnOf(v)
							if err2 != nil || !ok {
								e.err = fmt.Errorf("key %s@%d: value error %v / not a written value", keyOf(k), item.Version(), err2)
								break
							}
							o.found, o.w, o.s, o.ver = true, ow, os_, item.Version()
						} else if err != badger.ErrKeyNotFound {
							e.err = fmt.Errorf("Get: %v", err)
							break
						}
						e.obs = append(e.obs, o)
					}
				}
				txn.Discard()
				e.ret = stamp.Add(1)
				add(e)
			}
		}(r)
	}
	doneCh := make(chan struct{})
	go func() { wg.Wait(); close(doneCh) }()
	select {
	case <-doneCh:
	case <-time.After(300 * time.Second):
		buf := make([]byte, 1<<20)
		n := runtime.Stack(buf, true)
		return res, fmt.Errorf("the workload did not finish within 300 s (a call never returned)\n%s", buf[:min(n, 6000)])
	}
	y.VerifSetPointFn(nil)

	// ---- ground truth: the final all-versions state ------------------------------------------------
	type ver struct {
		ts   uint64
		w, s int
	}
	final := map[int][]ver{} // newest first
	tsOf := map[[2]int]uint64{}
	rd := db.NewTransaction(false)
	it := rd.NewIterator(badger.IteratorOptions{AllVersions: true})
	for it.Rewind(); it.Valid(); it.Next() {
		item := it.Item()
		var k int
		if bytes.HasPrefix(item.Key(), []byte("p")) {
			continue // preloaded by DB.Load
		}
		if _, err := fmt.Sscanf(string(item.Key()), "k%02d", &k); err != nil {
			it.Close()
			rd.Discard()
			return res, fmt.Errorf("key %q@%d exists although the transaction that wrote it was rejected (too big)", item.Key(), item.Version())
		}
		v, err := item.ValueCopy(nil)
		ow, os_, ok := txnOf(v)
		if err != nil || !ok {
			it.Close()
			rd.Discard()
			return res, fmt.Errorf("final scan: key %s@%d: value error %v / not a written value", item.Key(), item.Version(), err)
		}
		final[k] = append(final[k], ver{item.Version(), ow, os_})
		id := [2]int{ow, os_}
		if prev, ok := tsOf[id]; ok && prev != item.Version() {
			it.Close()
			rd.Discard()
			return res, fmt.Errorf("transaction %d/%d is stored under two commit timestamps (%d and %d)", ow, os_, prev, item.Version())
		}
		tsOf[id] = item.Version()
	}
	it.Close()
	rd.Discard()

	commits, conflicts, rejected, reads := 0, 0, 0, 0
	byTs := map[uint64][2]int{}
	var ok []*event
	for _, e := range events {
		if e.reader {
			continue
		}
		id := [2]int{e.w, e.s}
		if e.err != nil {
			if e.err == badger.ErrConflict {
				conflicts++
			} else if e.big && e.err == badger.ErrTxnTooBig {
				rejected++
			} else {
				return res, fmt.Errorf("transaction %d/%d failed unexpectedly: %v", e.w, e.s, e.err)
			}
			if ts, found := tsOf[id]; found {
				return res, fmt.Errorf("transaction %d/%d was rejected (%v) but its writes are stored at version %d", e.w, e.s, e.err, ts)
			}
			continue
		}
		commits++
		ts, found := tsOf[id]
		if !found {
			return res, fmt.Errorf("transaction %d/%d committed (nil) but none of its writes is stored", e.w, e.s)
		}
		// atomic: every key it wrote carries that version
		for _, k := range e.writes {
			has := false
			for _, v := range final[k] {
				if v.ts == ts && v.w == e.w && v.s == e.s {
					has = true
				}
			}
			if !has {
				return res, fmt.Errorf("transaction %d/%d committed at %d but its write to %s is missing at that version", e.w, e.s, ts, keyOf(k))
			}
		}
		if other, dup := byTs[ts]; dup && other != id {
			return res, fmt.Errorf("transactions %d/%d and %d/%d share commit timestamp %d", other[0], other[1], e.w, e.s, ts)
		}
		byTs[ts] = id
		ok = append(ok, e)
	}
	// real-time order of commits
	sort.Slice(ok, func(i, j int) bool { return ok[i].ret < ok[j].ret })
	var maxTs uint64
	var maxEv *event
	inv := append([]*event{}, ok...)
	sort.Slice(inv, func(i, j int) bool { return inv[i].inv < inv[j].inv })
	ri := 0
	for _, b := range inv {
		for ri < len(ok) && ok[ri].ret < b.inv {
			if t := tsOf[[2]int{ok[ri].w, ok[ri].s}]; t > maxTs {
				maxTs, maxEv = t, ok[ri]
			}
			ri++
		}
		if tb := tsOf[[2]int{b.w, b.s}]; maxEv != nil && tb <= maxTs {
			return res, fmt.Errorf("commit %d/%d was issued after commit %d/%d had returned, but got timestamp %d <= %d", b.w, b.s, maxEv.w, maxEv.s, tb, maxTs)
		}
	}
	// every observation equals the newest committed version at or below the read timestamp
	for _, e := range events {
		if e.reader && e.err != nil {
			return res, fmt.Errorf("reader %d/%d: %v", e.w, e.s, e.err)
		}
		for _, o := range e.obs {
			reads++
			var want *ver
			for i := range final[o.key] {
				if final[o.key][i].ts <= e.readTs {
					want = &final[o.key][i]
					break
				}
			}
			who := fmt.Sprintf("transaction %d/%d", e.w, e.s)
			if e.reader {
				who = fmt.Sprintf("reader %d scan %d", e.w, e.s)
			}
			switch {
			case want == nil && o.found:
				return res, fmt.Errorf("%s (read ts %d) saw %s = value of transaction %d/%d at version %d, but no version at or below its read timestamp is committed", who, e.readTs, keyOf(o.key), o.w, o.s, o.ver)
			case want != nil && !o.found:
				return res, fmt.Errorf("%s (read ts %d) did not see %s although transaction %d/%d committed it at version %d <= read ts (unfinished or partially applied commit exposed)", who, e.readTs, keyOf(o.key), want.w, want.s, want.ts)
			case want != nil && (o.ver != want.ts || o.w != want.w || o.s != want.s):
				return res, fmt.Errorf("%s (read ts %d) saw %s@%d (transaction %d/%d), the snapshot holds version %d (transaction %d/%d)", who, e.readTs, keyOf(o.key), o.ver, o.w, o.s, want.ts, want.w, want.s)
			}
		}
	}
	// a transaction started after Commit returned sees that commit: its read timestamp is not below it
	sort.Slice(ok, func(i, j int) bool { return ok[i].ret < ok[j].ret })
	all := append([]*event{}, events...)
	sort.Slice(all, func(i, j int) bool { return startOf(all[i]) < startOf(all[j]) })
	ri, maxTs, maxEv = 0, 0, nil
	for _, e := range all {
		start := e.inv // readers: stamped right before the transaction was created
		if !e.reader {
			start = e.pre
		}
		for ri < len(ok) && ok[ri].ret < start {
			if t := tsOf[[2]int{ok[ri].w, ok[ri].s}]; t > maxTs {
				maxTs, maxEv = t, ok[ri]
			}
			ri++
		}
		if maxEv != nil && e.readTs < maxTs {
			return res, fmt.Errorf("a transaction started after commit %d/%d (timestamp %d) had returned got read timestamp %d", maxEv.w, maxEv.s, maxTs, e.readTs)
		}
	}
	tables := len(db.Tables())
	if err := db.Close(); err != nil {
		closed = true
		return res, fmt.Errorf("Close: %v", err)
	}
	closed = true
	rec.Add("commits", commits)
	rec.Add("conflicts", conflicts)
	rec.Add("rejected_too_big", rejected)
	rec.Add("reads_checked", reads)
	cls := func(c bool, n string) {
		if c {
			res.Classes = append(res.Classes, n)
		}
	}
	cls(conflicts > 0, "conflict")
	cls(rejected > 0, "rejected_too_big")
	cls(p.Compact, "background_compactors")
	cls(p.Preload, "workload_right_after_load")
	cls(commits >= 20, "commits>=20")
	_ = math.MaxInt
	cls(tables > 0, "memtable_flushed_during_run")
	rec.Add("tables_at_end", tables)
	res.NonTrivial = commits >= 4 && reads >= 8 && len(p.Writers) >= 2
	return res, nil
}

const histRule = "rapid-generated concurrent workloads (half of them started right after a DB.Load of a small backup): 2-6 writer goroutines each run a generated list of read-write transactions (0-3 Gets, 1-4 Sets over 2-12 shared keys, values around the threshold, Commit or CommitWith; 1 in 30 overflows the transaction size limit) while 1-4 reader goroutines take snapshots (full iteration or Get of every key); memtable sizes 8K-64K with 1-5 memtables make commits span rotation and flush, the production flusher and (3 of 4 cases) two compactors run; generated jitter bytes insert yields/sleeps at the commit-ts, write-channel, doneCommit, readTs-wait, rotation and flush hook points. Every call gets logical invocation/return stamps. Oracle over the recorded history and the final all-versions scan (NumVersionsToKeep unbounded, no deletes, so nothing is ever dropped): each acknowledged transaction is stored under exactly one timestamp with all its writes; timestamps are distinct; a commit issued after another returned has a larger timestamp; a rejected commit (conflict, too big) stores nothing; EVERY Get/iteration result of every transaction equals the newest version at or below its read timestamp (no partial transaction, no commit at or below the read timestamp still being applied); a transaction created after a Commit returned has a read timestamp at or above it. Non-trivial = >=4 commits from >=2 writers and >=8 checked reads."

func TestC03_ConcurrentHistory(t *testing.T) {
	core.Run(t, "C03", "history", histRule, genHist, runHist)
}

func TestC34_OracleHistory(t *testing.T) {
	core.Run(t, "C34", "oracle_history", histRule, genHist, runHist)
}
