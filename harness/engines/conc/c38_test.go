package conc

import (
	"bytes"
	"context"
	"fmt"
	"os"
	"runtime"
	"strings"
	"sync"
	"sync/atomic"
	"testing"
	"time"

	badger "github.com/dgraph-io/badger/v4"
	"github.com/dgraph-io/badger/v4/pb"
	"github.com/dgraph-io/ristretto/v2/z"
	"pgregory.net/rapid"

	"verifharness/internal/core"
	"verifharness/internal/dbx"
	"verifharness/internal/evid"
)

// ---- C38: public calls and Close always return (no deadlock) -----------------------------------------

type actor struct {
	Kind string `json:"k"` // commit, read, iter, batch, gc, flatten, subscribe, stream, dropprefix, dropall, streamwriter
	N    int    `json:"n"`
	Size int    `json:"size"`
}

type round struct {
	Actors []actor `json:"actors"`
}

type c38Case struct {
	Spec   dbx.Spec `json:"spec"`
	Rounds []round  `json:"rounds"`
	// Close: committers and batch writers that are still running when Close is called
	CloseWriters int    `json:"closewriters"`
	Replaced     int    `json:"replaced,omitempty"` // stoppers turned into committers (known-finding exclusion)
	Jitter       []byte `json:"jitter"`
}

func genC38(t *rapid.T) c38Case {
	var c c38Case
	c.Spec = dbx.Gen(t, dbx.GenCfg{AllowEnc: true, ForceNormal: true})
	c.Spec.InMemory = false
	c.Spec.ExternalMagic, c.Spec.ManifestRewriteAt = 0, 0
	c.Spec.MemTableSize = rapid.SampledFrom([]int64{1 << 13, 1 << 14}).Draw(t, "mt")
	c.Spec.ValueThreshold = 64
	c.Spec.NumMemtables = rapid.SampledFrom([]int{1, 1, 2}).Draw(t, "nmem")
	c.Spec.NumLevelZeroTables = rapid.SampledFrom([]int{1, 2}).Draw(t, "l0")
	c.Spec.ValueLogMaxEntries = uint32(rapid.SampledFrom([]int{8, 50}).Draw(t, "vlogmax"))
	c.Spec.NumVersionsToKeep = 1
	sizes := []int{20, 100, 400}
	for r, nr := 0, rapid.IntRange(1, 4).Draw(t, "rounds"); r < nr; r++ {
		var rd round
		kindSets := [][]string{
			{"commit", "commit", "read", "iter", "batch", "gc", "flatten", "subscribe", "subslow", "stream"},
			{"commit", "commit", "batch", "dropprefix", "dropall"},
			{"streamwriter"},
		}
		si := rapid.SampledFrom([]int{0, 0, 0, 1, 1, 2}).Draw(t, "set")
		set := kindSets[si]
		na := rapid.IntRange(2, 7).Draw(t, "nactors")
		if si == 2 {
			// StreamWriter is documented for stores that are not in use (it swaps the timestamp
			// oracle): it runs alone, right after whatever the previous rounds left behind
			na = 1
		}
		stoppers := 0
		for a := 0; a < na; a++ {
			ac := actor{Kind: rapid.SampledFrom(set).Draw(t, "kind"), N: rapid.IntRange(1, 40).Draw(t, "n"), Size: rapid.SampledFrom(sizes).Draw(t, "size")}
			if isStopper(ac.Kind) {
				stoppers++
				if stoppers > 1 && !c38Strict {
					// Known finding concurrent-compaction-stoppers: two calls that stop and restart the
					// compactors (DropAll, DropPrefix, Flatten) at the same time leak compactor
					// goroutines. At most one of them per round is generated.
					ac.Kind = "commit"
					c.Replaced++
				}
			}
			rd.Actors = append(rd.Actors, ac)
		}
		c.Rounds = append(c.Rounds, rd)
	}
	c.CloseWriters = rapid.IntRange(0, 4).Draw(t, "closewriters")
	c.Jitter = rapid.SliceOfN(rapid.Byte(), 8, 32).Draw(t, "jitter")
	return c
}

const c38Bound = 120 * time.Second

// c38Strict turns the known-finding exclusion off (witness runs / development).
var c38Strict = os.Getenv("VERIF_STRICT") != ""

func isStopper(kind string) bool {
	return kind == "dropall" || kind == "dropprefix" || kind == "flatten"
}

func compactorGoroutines() int {
	buf := make([]byte, 4<<20)
	n := runtime.Stack(buf, true)
	return bytes.Count(buf[:n], []byte("levelsController).runCompactor("))
}

func stacks() string {
	buf := make([]byte, 8<<20)
	n := runtime.Stack(buf, true)
	var out []string
	seen := map[string]int{}
	for _, g := range strings.Split(string(buf[:n]), "\n\n") {
		if !strings.Contains(g, "badger/v4.") && !strings.Contains(g, "engines/conc") {
			continue
		}
		lines := strings.Split(g, "\n")
		var keep []string
		for i, l := range lines {
			if i == 0 || (!strings.HasPrefix(l, "\t") && i < 16) {
				if j := strings.LastIndex(l, "("); j > 0 && i > 0 {
					l = l[:j]
				}
				keep = append(keep, l)
			}
		}
		body := strings.Join(keep[1:], " < ")
		seen[body]++
		if seen[body] == 1 {
			out = append(out, keep[0]+" "+body)
		}
	}
	s := strings.Join(out, "\n")
	if len(s) > 20000 {
		s = s[:20000]
	}
	return s
}

func runC38(c c38Case, rec *evid.Rec) (core.Result, error) {
	var res core.Result
	dir := core.Scratch("dl")
	defer os.RemoveAll(dir)
	baseCompactors := compactorGoroutines()
	db, err := c.Spec.Open(dir, func(o *badger.Options) {
		o.NumCompactors = 2
		o.NumLevelZeroTablesStall = o.NumLevelZeroTables + 1
		o.NumGoroutines = 2
	})
	if err != nil {
		return res, fmt.Errorf("open: %v", err)
	}
	closed := false
	defer func() {
		installJitter([]byte{1})
		if !closed {
			db.Close()
		}
	}()
	installJitter(c.Jitter)
	var seq atomic.Int64
	key := func(a, i int) []byte { return []byte(fmt.Sprintf("p%d/key-%04d", a%3, i%50)) }
	val := func(n int) []byte { return bytes.Repeat([]byte{byte(seq.Add(1))}, n) }
	calls, errsSeen := atomic.Int64{}, atomic.Int64{}
	note := func(err error) {
		calls.Add(1)
		if err != nil {
			errsSeen.Add(1)
		}
	}
	run := func(a int, ac actor, stop <-chan struct{}) {
		for i := 0; i < ac.N; i++ {
			select {
			case <-stop:
				return
			default:
			}
			switch ac.Kind {
			case "commit":
				note(db.Update(func(txn *badger.Txn) error {
					for j := 0; j < 3; j++ {
						if err := txn.Set(key(a, i*3+j), val(ac.Size)); err != nil {
							return err
						}
					}
					return nil
				}))
			case "read":
				note(db.View(func(txn *badger.Txn) error {
					item, err := txn.Get(key(a, i))
					if err == nil {
						_, err = item.ValueCopy(nil)
					}
					if err == badger.ErrKeyNotFound {
						err = nil
					}
					return err
				}))
			case "iter":
				note(db.View(func(txn *badger.Txn) error {
					it := txn.NewIterator(badger.DefaultIteratorOptions)
					defer it.Close()
					n := 0
					for it.Rewind(); it.Valid() && n < 200; it.Next() {
						if _, err := it.Item().ValueCopy(nil); err != nil {
							return err
						}
						n++
					}
					return nil
				}))
			case "batch":
				wb := db.NewWriteBatch()
				var err error
				for j := 0; j < 10 && err == nil; j++ {
					err = wb.Set(key(a, i*10+j), val(ac.Size))
				}
				if err == nil {
					err = wb.Flush()
				} else {
					wb.Cancel()
				}
				note(err)
			case "gc":
				err := db.RunValueLogGC(0.01)
				if err == badger.ErrNoRewrite || err == badger.ErrRejected {
					err = nil
				}
				note(err)
			case "flatten":
				note(db.Flatten(2))
				return
			case "subscribe":
				ctx, cancel := context.WithCancel(context.Background())
				done := make(chan error, 1)
				go func() {
					done <- db.Subscribe(ctx, func(kv *badger.KVList) error { return nil }, []pb.Match{{Prefix: []byte("p1/")}})
				}()
				time.Sleep(time.Duration(c.Jitter[i%len(c.Jitter)]) * 10 * time.Microsecond)
				cancel()
				<-done
				note(nil)
			case "subslow":
				// a subscriber whose callback is stuck until its context is cancelled, while more than a
				// thousand update batches (the capacity of its channel) pile up behind it
				ctx, cancel := context.WithCancel(context.Background())
				done := make(chan error, 1)
				go func() {
					done <- db.Subscribe(ctx, func(kv *badger.KVList) error { <-ctx.Done(); return nil }, []pb.Match{{Prefix: []byte("slow/")}})
				}()
				deadline := time.Now().Add(10 * time.Second)
				for db.VerifNumSubscribers() == 0 && time.Now().Before(deadline) {
					time.Sleep(50 * time.Microsecond)
				}
				wrote := make(chan struct{})
				go func() { // its commits stall once the subscriber's channel is full (back-pressure)
					defer close(wrote)
					for j := 0; j < 1100; j++ {
						if err := db.Update(func(txn *badger.Txn) error { return txn.Set([]byte(fmt.Sprintf("slow/%d", j%7)), []byte{1}) }); err != nil {
							return
						}
					}
				}()
				select {
				case <-wrote:
				case <-time.After(300 * time.Millisecond):
				}
				cancel() // the stuck callback returns, the subscription ends, the stalled commits proceed
				<-done
				<-wrote
				note(nil)
				return
			case "stream":
				st := db.NewStream()
				st.NumGo = 2
				st.Send = func(buf *z.Buffer) error { return nil }
				note(st.Orchestrate(context.Background()))
			case "dropprefix":
				note(db.DropPrefix([]byte("p1/")))
			case "dropall":
				note(db.DropAll())
				return
			case "streamwriter":
				sw := db.NewStreamWriter()
				err := sw.Prepare()
				if err == nil {
					buf := z.NewBuffer(1<<10, "verif.c38")
					for j := 0; j < 5; j++ {
						badger.KVToBuffer(&pb.KV{Key: []byte(fmt.Sprintf("sw-%04d", j)), Value: val(ac.Size), Version: uint64(1000 + i), StreamId: 1}, buf)
					}
					err = sw.Write(buf)
					buf.Release()
					if err == nil {
						err = sw.Flush()
					} else {
						sw.Cancel()
					}
				} else {
					sw.Cancel()
				}
				note(err)
				return
			}
		}
	}
	stalled := 0
	for ri, rd := range c.Rounds {
		var wg sync.WaitGroup
		stop := make(chan struct{})
		for a, ac := range rd.Actors {
			wg.Add(1)
			go func(a int, ac actor) {
				defer wg.Done()
				run(a, ac, stop)
			}(a, ac)
		}
		done := make(chan struct{})
		go func() { wg.Wait(); close(done) }()
		select {
		case <-done:
		case <-time.After(c38Bound):
			closed = true // the store is wedged: do not try to close it
			return res, fmt.Errorf("round %d (%+v): the calls did not all return within %s\n%s", ri, rd.Actors, c38Bound, stacks())
		}
		for _, ti := range db.Tables() {
			if ti.Level == 0 {
				stalled++
				break
			}
		}
	}
	// Close with writes in flight
	var wg sync.WaitGroup
	stop := make(chan struct{})
	for w := 0; w < c.CloseWriters; w++ {
		wg.Add(1)
		go func(w int) {
			defer wg.Done()
			kind := "commit"
			if w%2 == 1 {
				kind = "batch"
			}
			run(w, actor{Kind: kind, N: 1000, Size: 200}, stop)
		}(w)
	}
	if c.CloseWriters > 0 {
		time.Sleep(time.Duration(c.Jitter[0]) * 20 * time.Microsecond)
	}
	closeDone := make(chan error, 1)
	go func() { closeDone <- db.Close() }()
	closed = true
	select {
	case <-closeDone:
	case <-time.After(c38Bound):
		return res, fmt.Errorf("Close with %d writers in flight did not return within %s\n%s", c.CloseWriters, c38Bound, stacks())
	}
	close(stop)
	wdone := make(chan struct{})
	go func() { wg.Wait(); close(wdone) }()
	select {
	case <-wdone:
	case <-time.After(c38Bound):
		return res, fmt.Errorf("writers that were in flight during Close did not return within %s of it\n%s", c38Bound, stacks())
	}
	// no compactor of this store may outlive Close (it would work on unmapped tables)
	leakDeadline := time.Now().Add(10 * time.Second)
	for compactorGoroutines() > baseCompactors && time.Now().Before(leakDeadline) {
		time.Sleep(time.Millisecond)
	}
	if n := compactorGoroutines(); n > baseCompactors {
		return res, fmt.Errorf("%d compactor goroutine(s) of the store are still running 10 s after Close returned\n%s", n-baseCompactors, stacks())
	}
	rec.Add("calls", int(calls.Load()))
	rec.Add("calls_returning_an_error", int(errsSeen.Load()))
	kinds := map[string]bool{}
	for _, rd := range c.Rounds {
		for _, a := range rd.Actors {
			kinds[a.Kind] = true
		}
	}
	for k := range kinds {
		res.Classes = append(res.Classes, "actor_"+k)
	}
	if c.CloseWriters > 0 {
		res.Classes = append(res.Classes, "close_with_writes_in_flight")
	}
	res.Excluded = c.Replaced
	res.NonTrivial = calls.Load() >= 20 && len(kinds) >= 3
	return res, nil
}

// TestKF_C38Strict replays a saved scenario (it may hold several compaction-stopping calls in one round).
func TestKF_C38Strict(t *testing.T) {
	if !core.Replaying() {
		t.Skip("witness runner: replay only")
	}
	TestC38_NoDeadlock(t)
}

func TestC38_NoDeadlock(t *testing.T) {
	core.Run(t, "C38", "nodeadlock",
		"rapid-generated scenarios on a store with two compactors, 8-16 KB memtables, 1-2 memtables, 1-2 L0 tables before compaction and a stall limit one above (writes stall on a full L0 / memtable queue all the time): 1-4 rounds of 2-7 concurrent actor goroutines - committers, Get readers, iterators, WriteBatch.Flush, RunValueLogGC, Flatten, Subscribe + cancel (also with a callback that is stuck while >1000 update batches queue up behind it), Stream in one kind of round; committers and batches racing DropPrefix / DropAll in another; a StreamWriter (Prepare/Write/Flush) alone in a third (reads are kept out of rounds with drops and nothing runs next to a StreamWriter, as documented) - then Close with 0-4 committers/batch writers still running. Jitter at the hook points. Oracle: every round's calls, Close, and the writers in flight during Close all return (any error is fine) within 180 s (normal: well under a second); a panic or process death counts as well. Non-trivial = >=20 calls over >=3 actor kinds.",
		genC38, runC38)
}
