package conc

import (
	"fmt"
	"io"
	"os"
	"path/filepath"
	"sync"
	"testing"

	badger "github.com/dgraph-io/badger/v4"
	"pgregory.net/rapid"

	"verifharness/internal/core"
	"verifharness/internal/dbx"
	"verifharness/internal/evid"
)

// ---- C30: sequence numbers are unique and increasing, across restarts and crashes -----------------

type seqObj struct {
	Key int `json:"key"`
	BW  int `json:"bw"`
}

type seqStep struct {
	Release bool `json:"rel,omitempty"`
	N       int  `json:"n,omitempty"` // Next calls
}

type seqPhase struct {
	Steps [][]seqStep `json:"steps"` // per worker goroutine
	Obj   []int       `json:"obj"`   // worker -> Sequence object (two workers may share one object)
	End   string      `json:"end"`   // close, release, crash
}

type c30Case struct {
	Spec   dbx.Spec   `json:"spec"`
	Objs   []seqObj   `json:"objs"`
	Phases []seqPhase `json:"phases"`
	Jitter []byte     `json:"jitter"`
}

func genC30(t *rapid.T) c30Case {
	var c c30Case
	c.Spec = dbx.Gen(t, dbx.GenCfg{AllowEnc: true, ForceNormal: true})
	c.Spec.InMemory = false
	c.Spec.ExternalMagic, c.Spec.ManifestRewriteAt = 0, 0
	nk := rapid.IntRange(1, 2).Draw(t, "nkeys")
	for i, n := 0, rapid.IntRange(1, 4).Draw(t, "nobjs"); i < n; i++ {
		c.Objs = append(c.Objs, seqObj{Key: rapid.IntRange(0, nk-1).Draw(t, "key"), BW: rapid.SampledFrom([]int{1, 2, 3, 10}).Draw(t, "bw")})
	}
	for i := range c.Objs {
		for j := range c.Objs {
			if i != j && c.Objs[i].Key == c.Objs[j].Key {
				// several objects on one key coordinate through transaction conflicts (the lease is
				// taken in an SSI transaction); without conflict detection nothing orders them
				c.Spec.DetectConflicts = true
			}
		}
	}
	for p, np := 0, rapid.IntRange(1, 4).Draw(t, "nphases"); p < np; p++ {
		var ph seqPhase
		nworkers := len(c.Objs) + rapid.IntRange(0, 2).Draw(t, "extraworkers")
		for w := 0; w < nworkers; w++ {
			if w < len(c.Objs) {
				ph.Obj = append(ph.Obj, w)
			} else {
				ph.Obj = append(ph.Obj, rapid.IntRange(0, len(c.Objs)-1).Draw(t, "sharedobj"))
			}
			var steps []seqStep
			for s, ns := 0, rapid.IntRange(1, 5).Draw(t, "nsteps"); s < ns; s++ {
				if rapid.IntRange(0, 3).Draw(t, "rel") == 0 {
					steps = append(steps, seqStep{Release: true})
				} else {
					steps = append(steps, seqStep{N: rapid.IntRange(1, 12).Draw(t, "n")})
				}
			}
			ph.Steps = append(ph.Steps, steps)
		}
		ph.End = rapid.SampledFrom([]string{"close", "release", "crash", "crash"}).Draw(t, "end")
		c.Phases = append(c.Phases, ph)
	}
	c.Jitter = rapid.SliceOfN(rapid.Byte(), 8, 32).Draw(t, "jitter")
	return c
}

func copyTree(src, dst string) error {
	if err := os.MkdirAll(dst, 0o755); err != nil {
		return err
	}
	ents, err := os.ReadDir(src)
	if err != nil {
		return err
	}
	for _, e := range ents {
		if e.Name() == "LOCK" {
			continue
		}
		in, err := os.Open(filepath.Join(src, e.Name()))
		if os.IsNotExist(err) {
			continue // removed since the directory was listed
		}
		if err != nil {
			return err
		}
		out, err := os.Create(filepath.Join(dst, e.Name()))
		if err != nil {
			in.Close()
			return err
		}
		_, err = io.Copy(out, in)
		in.Close()
		out.Close()
		if err != nil {
			return err
		}
	}
	return nil
}

func runC30(c c30Case, rec *evid.Rec) (core.Result, error) {
	var res core.Result
	base := core.Scratch("seq")
	defer os.RemoveAll(base)
	dir := filepath.Join(base, "d0")
	os.MkdirAll(dir, 0o755)
	db, err := c.Spec.Open(dir, nil)
	if err != nil {
		return res, fmt.Errorf("open: %v", err)
	}
	defer func() {
		if db != nil {
			db.Close()
		}
	}()
	installJitter(c.Jitter)
	defer installJitter([]byte{1})
	type handed struct {
		phase, obj int
	}
	seen := map[int]map[uint64]handed{} // key -> number -> who got it
	var mu sync.Mutex
	total, conflicts, crashes, restarts := 0, 0, 0, 0
	for pi, ph := range c.Phases {
		seqs := make([]*badger.Sequence, len(c.Objs))
		for i, o := range c.Objs {
			s, err := db.GetSequence([]byte(fmt.Sprintf("seq-%d", o.Key)), uint64(o.BW))
			if err != nil {
				return res, fmt.Errorf("phase %d: GetSequence: %v", pi, err)
			}
			seqs[i] = s
		}
		var wg sync.WaitGroup
		errs := make([]error, len(ph.Steps))
		for wk := range ph.Steps {
			wg.Add(1)
			go func(wk int) {
				defer wg.Done()
				i := wk
				if wk < len(ph.Obj) {
					i = ph.Obj[wk] % len(c.Objs)
				}
				var last uint64
				have := false
				for _, st := range ph.Steps[wk] {
					if st.Release {
						if err := seqs[i].Release(); err != nil && err != badger.ErrConflict && err != badger.ErrKeyNotFound {
							errs[wk] = fmt.Errorf("Release: %v", err)
							return
						}
						continue
					}
					for n := 0; n < st.N; n++ {
						v, err := seqs[i].Next()
						if err == badger.ErrConflict {
							mu.Lock()
							conflicts++
							mu.Unlock()
							continue
						}
						if err != nil {
							errs[wk] = fmt.Errorf("Next: %v", err)
							return
						}
						if have && v <= last {
							errs[wk] = fmt.Errorf("phase %d: Sequence object %d (key %d, bandwidth %d) returned %d after %d to the same goroutine: not strictly increasing", pi, i, c.Objs[i].Key, c.Objs[i].BW, v, last)
							return
						}
						last, have = v, true
						mu.Lock()
						k := c.Objs[i].Key
						if seen[k] == nil {
							seen[k] = map[uint64]handed{}
						}
						if prev, dup := seen[k][v]; dup {
							errs[wk] = fmt.Errorf("phase %d: number %d of key %d handed out twice: to object %d in phase %d and to object %d (bandwidth %d) in phase %d", pi, v, k, prev.obj, prev.phase, i, c.Objs[i].BW, pi)
							mu.Unlock()
							return
						}
						seen[k][v] = handed{pi, i}
						total++
						mu.Unlock()
					}
				}
			}(wk)
		}
		wg.Wait()
		for _, e := range errs {
			if e != nil {
				return res, e
			}
		}
		switch ph.End {
		case "release":
			for i, s := range seqs {
				if err := s.Release(); err != nil && err != badger.ErrKeyNotFound {
					return res, fmt.Errorf("phase %d: final Release of object %d: %v", pi, i, err)
				}
			}
			fallthrough
		case "close":
			if err := db.Close(); err != nil {
				db = nil
				return res, fmt.Errorf("phase %d: Close: %v", pi, err)
			}
			restarts++
		case "crash":
			// the image a process kill leaves right now (no call in flight): every file as it is
			nd := filepath.Join(base, fmt.Sprintf("d%d", pi+1))
			db.VerifWaitFlushed()
			if err := copyTree(dir, nd); err != nil {
				return res, err
			}
			db.Close()
			os.RemoveAll(dir)
			dir = nd
			crashes++
		}
		db, err = c.Spec.Open(dir, nil)
		if err != nil {
			db = nil
			return res, fmt.Errorf("phase %d: re-open after %s: %v", pi, ph.End, err)
		}
	}
	rec.Add("numbers_handed_out", total)
	rec.Add("lease_conflicts", conflicts)
	shared := false
	for i := range c.Objs {
		for j := range c.Objs {
			if i != j && c.Objs[i].Key == c.Objs[j].Key {
				shared = true
			}
		}
	}
	cls := func(b bool, n string) {
		if b {
			res.Classes = append(res.Classes, n)
		}
	}
	cls(shared, "objects_share_a_key")
	cls(conflicts > 0, "lease_conflict")
	cls(crashes > 0, "crash")
	cls(restarts > 0, "restart")
	res.NonTrivial = total >= 10 && (crashes > 0 || restarts > 0) && len(c.Phases) >= 2
	return res, nil
}

func TestC30_Sequence(t *testing.T) {
	core.Run(t, "C30", "sequence",
		"rapid-generated plans: 1-4 Sequence objects over 1-2 keys (bandwidth 1/2/3/10), one or two goroutines per object running generated runs of Next calls and Release calls concurrently (Release can race Next on the same object) (conflict detection on/off, jitter at the commit hooks), in 1-4 phases separated by Close, Release-all + Close, or a crash (the directory image a process kill leaves at that moment is copied and opened instead). Oracle: every number a Next call returned is unique per key over the whole plan (all objects, all phases, across restarts and crashes), and strictly increasing for each goroutine using an object; Next may fail (lease conflict), a failed call hands out nothing. Non-trivial = >=10 numbers over >=2 phases with a restart or crash.",
		genC30, runC30)
}
