package conc

import (
	"bytes"
	"encoding/binary"
	"fmt"
	"runtime"
	"sort"
	"sync"
	"sync/atomic"
	"testing"

	"github.com/dgraph-io/badger/v4/skl"
	"github.com/dgraph-io/badger/v4/y"
	"pgregory.net/rapid"

	"verifharness/internal/core"
	"verifharness/internal/evid"
)

// ---- C22 (concurrent part): the skiplist under concurrent puts and readers --------------------------

type sklPut struct {
	Key  int `json:"k"`
	Ver  int `json:"v"`
	Size int `json:"s"`
}

type c22Conc struct {
	Keys    [][]byte   `json:"keys"`
	Writers [][]sklPut `json:"writers"`
	Readers int        `json:"readers"`
	Rounds  int        `json:"rounds"`
	Jitter  []byte     `json:"jitter"`
}

func genC22Conc(t *rapid.T) c22Conc {
	var c c22Conc
	alpha := []byte{0x00, 0x01, 'a', 'b', 0xFE, 0xFF}
	seen := map[string]bool{}
	for tries := 0; len(c.Keys) < 14 && tries < 200; tries++ {
		k := rapid.SliceOfN(rapid.SampledFrom(alpha), 1, 4).Draw(t, "key")
		if !seen[string(k)] {
			seen[string(k)] = true
			c.Keys = append(c.Keys, k)
		}
	}
	nw := rapid.IntRange(2, 6).Draw(t, "writers")
	for w := 0; w < nw; w++ {
		var ps []sklPut
		for i, n := 0, rapid.IntRange(1, 60).Draw(t, "nputs"); i < n; i++ {
			ps = append(ps, sklPut{Key: rapid.IntRange(0, len(c.Keys)-1).Draw(t, "k"), Ver: rapid.IntRange(0, 6).Draw(t, "v"), Size: rapid.SampledFrom([]int{0, 1, 3, 17, 200}).Draw(t, "s")})
		}
		c.Writers = append(c.Writers, ps)
	}
	c.Readers = rapid.IntRange(1, 4).Draw(t, "readers")
	c.Rounds = rapid.IntRange(2, 30).Draw(t, "rounds")
	c.Jitter = rapid.SliceOfN(rapid.Byte(), 4, 32).Draw(t, "jitter")
	return c
}

// sklVal encodes (writer, seq) and a checkable payload: a torn or foreign value is recognisable.
func sklVal(w, seq, size int) []byte {
	v := make([]byte, 8+size)
	binary.BigEndian.PutUint32(v, uint32(w))
	binary.BigEndian.PutUint32(v[4:], uint32(seq))
	for i := 8; i < len(v); i++ {
		v[i] = byte(w*13 + seq*7 + i)
	}
	return v
}

func sklDecode(v []byte) (w, seq int, ok bool) {
	if len(v) < 8 {
		return 0, 0, false
	}
	w, seq = int(binary.BigEndian.Uint32(v)), int(binary.BigEndian.Uint32(v[4:]))
	return w, seq, bytes.Equal(v, sklVal(w, seq, len(v)-8))
}

func runC22Conc(c c22Conc, rec *evid.Rec) (core.Result, error) {
	var res core.Result
	s := skl.NewSkiplist(1 << 22)
	defer s.DecrRef()
	// each internal key belongs to one writer, so that "later put" is well defined per key
	owner := func(p sklPut) int { return (p.Key*7 + p.Ver) % len(c.Writers) }
	ikey := func(p sklPut) []byte { return y.KeyWithTs(c.Keys[p.Key%len(c.Keys)], uint64(p.Ver)) }
	var stamp atomic.Int64
	type putRec struct {
		key      string
		w, seq   int
		inv, ret int64
	}
	var mu sync.Mutex
	var puts []putRec
	var failMu sync.Mutex
	var fail error
	setFail := func(err error) {
		failMu.Lock()
		if fail == nil {
			fail = err
		}
		failMu.Unlock()
	}
	var wg sync.WaitGroup
	var writersLeft atomic.Int32
	writersLeft.Store(int32(len(c.Writers)))
	overwrites := atomic.Int64{}
	for w := range c.Writers {
		wg.Add(1)
		go func(w int) {
			defer wg.Done()
			defer writersLeft.Add(-1)
			done := map[string]bool{}
			for seq, p := range c.Writers[w] {
				if owner(p) != w {
					continue
				}
				k := ikey(p)
				if done[string(k)] {
					overwrites.Add(1)
				}
				done[string(k)] = true
				r := putRec{key: string(k), w: w, seq: seq, inv: stamp.Add(1)}
				s.Put(k, y.ValueStruct{Value: sklVal(w, seq, p.Size), UserMeta: byte(w)})
				r.ret = stamp.Add(1)
				mu.Lock()
				puts = append(puts, r)
				mu.Unlock()
				if c.Jitter[(w+seq)%len(c.Jitter)]%3 == 0 {
					runtime.Gosched()
				}
			}
		}(w)
	}
	walks := atomic.Int64{}
	for r := 0; r < c.Readers; r++ {
		wg.Add(1)
		go func(r int) {
			defer wg.Done()
			seenBefore := map[string]int{} // internal key -> highest seq observed (its owner's order)
			for round := 0; round < c.Rounds || writersLeft.Load() > 0 && round < 2000; round++ {
				start := stamp.Add(1)
				// snapshot of the puts that had returned before this walk started
				mu.Lock()
				must := map[string]int{}
				for _, p := range puts {
					if p.ret < start && p.seq >= must[p.key]-1 {
						if cur, ok := must[p.key]; !ok || p.seq+1 > cur {
							must[p.key] = p.seq + 1
						}
					}
				}
				mu.Unlock()
				it := s.NewUniIterator(round%2 == 1)
				var prev []byte
				got := map[string]int{}
				for it.Rewind(); it.Valid(); it.Next() {
					k := append([]byte{}, it.Key()...)
					if prev != nil {
						cmp := y.CompareKeys(prev, k)
						if (round%2 == 0 && cmp >= 0) || (round%2 == 1 && cmp <= 0) {
							setFail(fmt.Errorf("reader %d walk %d (reverse=%v): key %x follows %x: unsorted or duplicate entry", r, round, round%2 == 1, k, prev))
							it.Close()
							return
						}
					}
					prev = k
					w, seq, ok := sklDecode(it.Value().Value)
					if !ok {
						setFail(fmt.Errorf("reader %d walk %d: key %x holds a torn or foreign value (len %d)", r, round, k, len(it.Value().Value)))
						it.Close()
						return
					}
					_ = w
					got[string(k)] = seq + 1
				}
				it.Close()
				walks.Add(1)
				for k, minSeq := range must {
					g, ok := got[k]
					if !ok {
						setFail(fmt.Errorf("reader %d walk %d: key %x is missing although its Put had returned before the walk started", r, round, []byte(k)))
						return
					}
					if g < minSeq {
						setFail(fmt.Errorf("reader %d walk %d: key %x shows put #%d of its writer, but put #%d had returned before the walk started (a later put replaces the value)", r, round, []byte(k), g-1, minSeq-1))
						return
					}
				}
				for k, s0 := range seenBefore {
					g, ok := got[k]
					if !ok {
						setFail(fmt.Errorf("reader %d walk %d: key %x was visible in an earlier walk and is gone now", r, round, []byte(k)))
						return
					}
					if g < s0 {
						setFail(fmt.Errorf("reader %d walk %d: key %x went back from put #%d to put #%d of its writer", r, round, []byte(k), s0-1, g-1))
						return
					}
				}
				for k, g := range got {
					seenBefore[k] = g
				}
				// point lookups: Get(user key @ ts) = greatest version <= ts of that user key
				for i := 0; i < 4; i++ {
					ki := (round*5 + i*3 + r) % len(c.Keys)
					ts := uint64((round + i) % 8)
					vs := s.Get(y.KeyWithTs(c.Keys[ki], ts))
					if vs.Value == nil && vs.Meta == 0 && vs.Version == 0 {
						// not found: no put of a version <= ts of this key may have returned before the Get
						for k := range must {
							if y.SameKey([]byte(k), y.KeyWithTs(c.Keys[ki], 0)) && y.ParseTs([]byte(k)) <= ts {
								setFail(fmt.Errorf("reader %d: Get(%x@%d) finds nothing although version %d was put before", r, c.Keys[ki], ts, y.ParseTs([]byte(k))))
								return
							}
						}
						continue
					}
					if vs.Version > ts {
						setFail(fmt.Errorf("reader %d: Get(%x@%d) returned version %d", r, c.Keys[ki], ts, vs.Version))
						return
					}
					if _, _, ok := sklDecode(vs.Value); !ok {
						setFail(fmt.Errorf("reader %d: Get(%x@%d) returned a torn or foreign value", r, c.Keys[ki], ts))
						return
					}
					for k := range must {
						if y.SameKey([]byte(k), y.KeyWithTs(c.Keys[ki], 0)) {
							if v := y.ParseTs([]byte(k)); v <= ts && v > vs.Version {
								setFail(fmt.Errorf("reader %d: Get(%x@%d) returned version %d although version %d was put before", r, c.Keys[ki], ts, vs.Version, v))
								return
							}
						}
					}
				}
				if fail != nil {
					return
				}
			}
		}(r)
	}
	wg.Wait()
	if fail != nil {
		return res, fail
	}
	// final state == sorted map of the last put per internal key
	want := map[string]int{}
	for _, p := range puts {
		if p.seq+1 > want[p.key] {
			want[p.key] = p.seq + 1
		}
	}
	var keys []string
	for k := range want {
		keys = append(keys, k)
	}
	sort.Slice(keys, func(i, j int) bool { return y.CompareKeys([]byte(keys[i]), []byte(keys[j])) < 0 })
	it := s.NewIterator()
	i := 0
	for it.SeekToFirst(); it.Valid(); it.Next() {
		if i >= len(keys) || !bytes.Equal(it.Key(), []byte(keys[i])) {
			it.Close()
			return res, fmt.Errorf("final walk: entry #%d is %x, the sorted map of all puts has %d keys and expects something else there", i, it.Key(), len(keys))
		}
		_, seq, ok := sklDecode(it.Value().Value)
		if !ok || seq+1 != want[keys[i]] {
			it.Close()
			return res, fmt.Errorf("final walk: key %x holds put #%d of its writer, the last put was #%d", it.Key(), seq, want[keys[i]]-1)
		}
		i++
	}
	it.Close()
	if i != len(keys) {
		return res, fmt.Errorf("final walk yields %d entries, %d distinct internal keys were put", i, len(keys))
	}
	rec.Add("walks", int(walks.Load()))
	rec.Add("puts", len(puts))
	rec.Add("overwrites", int(overwrites.Load()))
	if overwrites.Load() > 0 {
		res.Classes = append(res.Classes, "in_place_overwrite")
	}
	res.NonTrivial = len(puts) >= 10 && walks.Load() >= 2 && overwrites.Load() > 0
	return res, nil
}

func TestC22_SkiplistConcurrent(t *testing.T) {
	core.Run(t, "C22", "concurrent",
		"rapid-generated plans: 2-6 writer goroutines put generated (user key, version) pairs (<=14 prefix-related keys over a 6-byte alphabet x versions 0-6, value sizes 0-200, in-place overwrites; every internal key is owned by one writer so that 'later put' is defined) while 1-4 reader goroutines walk the list forward and backward and issue Get(key@ts); logical stamps on every put. Oracle: every walk is strictly sorted by CompareKeys (no duplicate, no unsorted entry), every value decodes to a value some put wrote (not torn), a key whose Put returned before the walk started is present with that put or a later one, nothing a reader saw disappears or goes back to an earlier put, Get returns the greatest version <= ts that was put before it (or a newer one <= ts); the final walk equals the sorted map of the last puts. Non-trivial = >=10 puts with an in-place overwrite and >=2 concurrent walks.",
		genC22Conc, runC22Conc)
}
