// Package crash holds the fault-injection checks: a child process runs a generated
// single-committer workload and is killed (SIGKILL to itself) at a chosen persistence point; the
// parent re-opens what is left and compares it with the commit-prefix oracle (C08), plus the
// torn-tail enumeration (C09) and the power-loss image builder (C10).
package crash

import (
	"bytes"
	"encoding/json"
	"fmt"
	"math"
	"os"
	"sort"
	"sync"

	badger "github.com/dgraph-io/badger/v4"
	"pgregory.net/rapid"

	"verifharness/internal/dbx"
)

// W is one write of a transaction.
type W struct {
	Key   int  `json:"key"`
	VSize int  `json:"vs"`
	Del   bool `json:"del,omitempty"`
}

// Op is one step of the workload.
type Op struct {
	Kind   string `json:"k"` // txn, flush, compact, gc, reopen, dropprefix, dropall
	Writes []W    `json:"w,omitempty"`
	A      int    `json:"a,omitempty"`
	B      int    `json:"b,omitempty"`
}

// Prog is a generated workload.
type Prog struct {
	Spec dbx.Spec `json:"spec"`
	Keys [][]byte `json:"keys"`
	Ops  []Op     `json:"ops"`
	// Points selects crash points: indices (mod the number of points of the dry run).
	Points []int `json:"points"`
}

var alphabet = []byte{0x00, 'a', 'b', 0xFF}

func genKeys(t *rapid.T, lo, hi int) [][]byte {
	n := rapid.IntRange(lo, hi).Draw(t, "nkeys")
	seen := map[string]bool{}
	var keys [][]byte
	for tries := 0; len(keys) < n && tries < 200; tries++ {
		k := rapid.SliceOfN(rapid.SampledFrom(alphabet), 1, 4).Draw(t, "key")
		if !seen[string(k)] {
			seen[string(k)] = true
			keys = append(keys, k)
		}
	}
	sort.Slice(keys, func(i, j int) bool { return bytes.Compare(keys[i], keys[j]) < 0 })
	return keys
}

// GenCfg tunes the workload generator.
type GenCfg struct {
	MinOps, MaxOps int
	Weights        map[string]int
	SyncWrites     bool
	NPoints        int
	AllowEnc       bool
}

func genWrites(t *rapid.T, s dbx.Spec, nk int) []W {
	n := rapid.IntRange(1, 4).Draw(t, "nwrites")
	var ws []W
	for i := 0; i < n; i++ {
		w := W{Key: rapid.IntRange(0, nk-1).Draw(t, "key")}
		if rapid.IntRange(0, 5).Draw(t, "del") == 0 {
			w.Del = true
		} else {
			T := int(s.ValueThreshold)
			w.VSize = rapid.SampledFrom([]int{0, 1, T - 1, T, T + 1, 100, 400}).Draw(t, "vsize")
			if w.VSize < 0 {
				w.VSize = 0
			}
			if max := int(s.MemTableSize / 48); w.VSize > max {
				w.VSize = max
			}
		}
		ws = append(ws, w)
	}
	return ws
}

// Gen draws a workload.
func Gen(t *rapid.T, c GenCfg) Prog {
	var p Prog
	p.Spec = dbx.Gen(t, dbx.GenCfg{AllowEnc: c.AllowEnc, KeepVersions: []int{1, 2}})
	p.Spec.InMemory, p.Spec.Managed = false, false
	p.Spec.SyncWrites = c.SyncWrites
	p.Spec.ExternalMagic = 0
	p.Keys = genKeys(t, 3, 10)
	var kinds []string
	for k, w := range c.Weights {
		for i := 0; i < w; i++ {
			kinds = append(kinds, k)
		}
	}
	sort.Strings(kinds)
	n := rapid.IntRange(c.MinOps, c.MaxOps).Draw(t, "nops")
	for i := 0; i < n; i++ {
		op := Op{Kind: rapid.SampledFrom(kinds).Draw(t, "kind")}
		switch op.Kind {
		case "txn":
			op.Writes = genWrites(t, p.Spec, len(p.Keys))
		case "burst": // several transactions in a row (macro)
			for j, m := 0, rapid.IntRange(2, 8).Draw(t, "burst"); j < m; j++ {
				p.Ops = append(p.Ops, Op{Kind: "txn", Writes: genWrites(t, p.Spec, len(p.Keys))})
			}
			continue
		case "asyncburst": // several transactions committed with CommitWith back to back: multi-request write batches
			m := rapid.IntRange(2, 10).Draw(t, "asyncburst")
			for j := 0; j < m; j++ {
				k := "atxn"
				if j == m-1 {
					k = "atxnwait" // the last one waits for all callbacks
				}
				p.Ops = append(p.Ops, Op{Kind: k, Writes: genWrites(t, p.Spec, len(p.Keys))})
			}
			continue
		case "wbatch": // a small WriteBatch (one internal transaction); A odd: it also carries one explicitly versioned entry (WriteList)
			seen := map[int]bool{}
			for j, m := 0, rapid.IntRange(1, 4).Draw(t, "nwrites"); j < m; j++ {
				w := W{Key: rapid.IntRange(0, len(p.Keys)-1).Draw(t, "key"), VSize: rapid.SampledFrom([]int{0, 1, 8, 24}).Draw(t, "vsize")}
				if seen[w.Key] {
					continue
				}
				seen[w.Key] = true
				w.Del = rapid.IntRange(0, 5).Draw(t, "del") == 0
				op.Writes = append(op.Writes, w)
			}
			op.A = rapid.IntRange(0, 1).Draw(t, "mixed")
		case "batchrot": // macro: an asynchronous burst big enough to fill a memtable, so that the rotation falls inside a write batch
			vs := int(p.Spec.MemTableSize / 48)
			if T := int(p.Spec.ValueThreshold); T-1 >= 32 && T-1 < vs {
				vs = T - 1 // inline values fill the memtable fastest
			}
			m := int(p.Spec.MemTableSize)/(4*(vs+60)) + rapid.IntRange(1, 8).Draw(t, "batchrot")
			if m > 60 {
				m = 60
			}
			for j := 0; j < m; j++ {
				k := "atxn"
				if j == m-1 {
					k = "atxnwait"
				}
				var ws []W
				for x := 0; x < 4; x++ {
					ws = append(ws, W{Key: rapid.IntRange(0, len(p.Keys)-1).Draw(t, "key"), VSize: vs})
				}
				p.Ops = append(p.Ops, Op{Kind: k, Writes: ws})
			}
			continue
		case "compact":
			op.A = rapid.SampledFrom([]int{0, 0, 1, 2, 3}).Draw(t, "level")
			op.B = rapid.IntRange(0, 2).Draw(t, "worker")
		case "churn": // macro: make value log GC possible, then run it
			for round := 0; round < 2; round++ {
				for j := 0; j < 5; j++ {
					p.Ops = append(p.Ops, Op{Kind: "txn", Writes: []W{{Key: j, VSize: int(p.Spec.ValueThreshold) + 40}}})
				}
			}
			p.Ops = append(p.Ops, Op{Kind: "flush"}, Op{Kind: "compact"}, Op{Kind: "gc"})
			continue
		case "dropprefix":
			op.A = rapid.IntRange(0, len(p.Keys)-1).Draw(t, "prefixkey")
			op.B = rapid.IntRange(1, 2).Draw(t, "plen")
		}
		p.Ops = append(p.Ops, op)
	}
	np := c.NPoints
	if np == 0 {
		np = 6
	}
	for i := 0; i < np; i++ {
		p.Points = append(p.Points, rapid.IntRange(0, 1<<20).Draw(t, "point"))
	}
	return p
}

func val(seq, size int) []byte {
	v := make([]byte, size)
	for i := range v {
		v[i] = byte(seq*17 + i*5 + 3)
	}
	if size >= 2 {
		v[0], v[1] = byte(seq>>8), byte(seq)
	}
	return v
}

// State is the visible content of a store: key -> value.
type State map[string][]byte

func (s State) clone() State {
	o := State{}
	for k, v := range s {
		o[k] = v
	}
	return o
}

func (s State) equal(o State) bool {
	if len(s) != len(o) {
		return false
	}
	for k, v := range s {
		w, ok := o[k]
		if !ok || !bytes.Equal(v, w) {
			return false
		}
	}
	return true
}

func (s State) String() string {
	var ks []string
	for k := range s {
		ks = append(ks, k)
	}
	sort.Strings(ks)
	var b bytes.Buffer
	for _, k := range ks {
		v := s[k]
		h := v
		if len(h) > 2 {
			h = h[:2]
		}
		fmt.Fprintf(&b, "%x=%x(len %d) ", k, h, len(v))
	}
	return b.String()
}

// prefixOf returns the user prefix a dropprefix op removes.
func (p Prog) prefixOf(op Op) []byte {
	k := p.Keys[op.A%len(p.Keys)]
	n := op.B
	if n > len(k) {
		n = len(k)
	}
	return k[:n]
}

// States returns the model state after every logical step: states[0] is the empty store and
// states[i] the store after the i-th state-changing op (transactions, drops). kinds[i-1] names
// the op. The value sequence numbers are deterministic, so parent and child agree.
func (p Prog) States() (states []State, kinds []string) {
	cur := State{}
	states = append(states, cur.clone())
	seq := 0
	for _, op := range p.Ops {
		switch op.Kind {
		case "txn", "atxn", "atxnwait":
			for _, w := range op.Writes {
				seq++
				k := string(p.Keys[w.Key%len(p.Keys)])
				if w.Del {
					delete(cur, k)
				} else {
					cur[k] = val(seq, w.VSize)
				}
			}
		case "wbatch":
			for _, w := range op.Writes {
				seq++
				k := string(p.Keys[w.Key%len(p.Keys)])
				if w.Del {
					delete(cur, k)
				} else {
					cur[k] = val(seq, w.VSize)
				}
			}
			if op.A%2 == 1 {
				seq++
				cur[string(versionedKey(len(states)))] = val(seq, 12)
			}
		case "dropprefix":
			pre := p.prefixOf(op)
			for k := range cur {
				if bytes.HasPrefix([]byte(k), pre) {
					delete(cur, k)
				}
			}
		case "dropall":
			cur = State{}
		default:
			continue
		}
		states = append(states, cur.clone())
		if op.Kind == "atxn" || op.Kind == "atxnwait" || (op.Kind == "wbatch" && op.A%2 == 0) {
			kinds = append(kinds, "txn")
		} else if op.Kind == "wbatch" {
			kinds = append(kinds, "mixbatch")
		} else {
			kinds = append(kinds, op.Kind)
		}
	}
	return
}

// versionedKey is the key of the explicitly versioned entry of the n-th (1-based) state-changing op:
// a key nothing else writes, so that its version (1, below every commit timestamp) never competes
// with another version of the same key.
func versionedKey(n int) []byte { return []byte(fmt.Sprintf("wbv%04d", n)) }

// stateOp returns the i-th (0-based) state-changing op.
func (p Prog) stateOp(i int) Op {
	n := 0
	for _, op := range p.Ops {
		switch op.Kind {
		case "txn", "atxn", "atxnwait", "wbatch", "dropprefix", "dropall":
			if n == i {
				return op
			}
			n++
		}
	}
	return Op{}
}

// ReadState reads every visible key of the DB with a forward scan and cross-checks it with Get.
func ReadState(db *badger.DB, keys [][]byte) (State, error) {
	st := State{}
	txn := db.NewTransaction(false)
	defer txn.Discard()
	it := txn.NewIterator(badger.DefaultIteratorOptions)
	for it.Rewind(); it.Valid(); it.Next() {
		v, err := it.Item().ValueCopy(nil)
		if err != nil {
			it.Close()
			return nil, fmt.Errorf("reading value of %x: %v", it.Item().Key(), err)
		}
		st[string(it.Item().KeyCopy(nil))] = v
	}
	it.Close()
	for _, k := range keys {
		item, err := txn.Get(k)
		want, ok := st[string(k)]
		if err == badger.ErrKeyNotFound {
			if ok {
				return nil, fmt.Errorf("Get(%x) = not found but the scan yields it", k)
			}
			continue
		}
		if err != nil {
			return nil, fmt.Errorf("Get(%x): %v", k, err)
		}
		got, _ := item.ValueCopy(nil)
		if !ok || !bytes.Equal(got, want) {
			return nil, fmt.Errorf("Get(%x) and the scan disagree", k)
		}
	}
	return st, nil
}

// Ack log lines: "I <n>" before issuing the n-th state-changing op, "A <n>" after it returned
// nil, "P <total>" the number of crash points seen by a dry run, "E <msg>" an unexpected error.
type ackLog struct {
	mu     sync.Mutex
	f      *os.File
	frozen bool
}

func (a *ackLog) write(format string, args ...any) {
	a.mu.Lock()
	defer a.mu.Unlock()
	if a.frozen {
		return
	}
	fmt.Fprintf(a.f, format+"\n", args...)
}

// freeze stops the log at the loss instant: other goroutines keep running until the process is
// really gone, and what they acknowledge after the image was taken did not happen before the loss.
func (a *ackLog) freeze() {
	a.mu.Lock()
	a.frozen = true
	a.mu.Unlock()
}

// ParseAcks returns (largest acked index, largest issued index, points total, error line).
func ParseAcks(path string) (acked, issued, points int, errLine string) {
	points = -1
	raw, _ := os.ReadFile(path)
	for _, line := range bytes.Split(raw, []byte("\n")) {
		var n int
		switch {
		case len(line) > 2 && line[0] == 'A':
			fmt.Sscanf(string(line[2:]), "%d", &n)
			if n > acked {
				acked = n
			}
		case len(line) > 2 && line[0] == 'I':
			fmt.Sscanf(string(line[2:]), "%d", &n)
			if n > issued {
				issued = n
			}
		case len(line) > 2 && line[0] == 'P':
			fmt.Sscanf(string(line[2:]), "%d", &points)
		case len(line) > 2 && line[0] == 'E':
			errLine = string(line[2:])
		}
	}
	return
}

// ChildSpec is what the parent hands to the child process.
type ChildSpec struct {
	Prog    Prog   `json:"prog"`
	Dir     string `json:"dir"`
	AckPath string `json:"ack"`
	KillAt  int    `json:"killat"` // 1-based index of the crash point at which to die; 0 = never
	// Recover: open the (crashed) directory instead of starting the workload; die at KillAt.
	Recover bool `json:"recover,omitempty"`
	// PowerLoss: maintain the durability shadow and materialise the adversarial image (C10).
	PowerLoss bool   `json:"powerloss,omitempty"`
	ImageDir  string `json:"imagedir,omitempty"`
	Variant   int    `json:"variant,omitempty"`
}

func loadChildSpec(path string) (ChildSpec, error) {
	var cs ChildSpec
	raw, err := os.ReadFile(path)
	if err != nil {
		return cs, err
	}
	err = json.Unmarshal(raw, &cs)
	return cs, err
}

var _ = math.MaxInt32
