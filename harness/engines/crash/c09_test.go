package crash

import (
	"bytes"
	"fmt"
	"os"
	"path/filepath"
	"sort"
	"strings"
	"testing"

	badger "github.com/dgraph-io/badger/v4"
	"pgregory.net/rapid"

	"verifharness/internal/core"
	"verifharness/internal/dbx"
	"verifharness/internal/evid"
)

// ---- C09: torn tails of the newest WAL, value log and MANIFEST ----------------------------------

type c09Case struct {
	Prog Prog `json:"prog"` // Ops = history before the last operation (txn / flush / compact only)
	Last []W  `json:"last"` // the last transaction (its records are what gets torn)
	// LastKind: "txn" tears the newest WAL and value log, "flush" tears the MANIFEST change set that
	// records the flushed table.
	LastKind string `json:"lastkind"`
}

func genC09(t *rapid.T) c09Case {
	var c c09Case
	c.Prog = Gen(t, GenCfg{MinOps: 0, MaxOps: 10, Weights: map[string]int{"txn": 8, "burst": 1, "flush": 2, "compact": 2}, AllowEnc: true, NPoints: 1})
	c.Prog.Spec.VLogPercentile = 0
	c.LastKind = rapid.SampledFrom([]string{"txn", "txn", "flush"}).Draw(t, "lastkind")
	n := rapid.IntRange(1, 4).Draw(t, "nlast")
	T := int(c.Prog.Spec.ValueThreshold)
	for i := 0; i < n; i++ {
		w := W{Key: rapid.IntRange(0, len(c.Prog.Keys)-1).Draw(t, "key")}
		switch rapid.IntRange(0, 4).Draw(t, "wkind") {
		case 0:
			w.Del = true
		case 1, 2:
			w.VSize = T + rapid.IntRange(0, 200).Draw(t, "big") // value log
		default:
			w.VSize = rapid.IntRange(0, max(T-1, 0)).Draw(t, "small") // inline
		}
		if max := int(c.Prog.Spec.MemTableSize / 48); w.VSize > max {
			w.VSize = max
		}
		c.Last = append(c.Last, w)
	}
	return c
}

func copyDir(src, dst string) error {
	if err := os.MkdirAll(dst, 0o755); err != nil {
		return err
	}
	ents, err := os.ReadDir(src)
	if err != nil {
		return err
	}
	for _, e := range ents {
		if e.Name() == "LOCK" {
			continue
		}
		if err := copyFile(filepath.Join(src, e.Name()), filepath.Join(dst, e.Name())); err != nil {
			return err
		}
	}
	return nil
}

func newest(dir, suffix string) string {
	ents, _ := os.ReadDir(dir)
	var names []string
	for _, e := range ents {
		if strings.HasSuffix(e.Name(), suffix) {
			names = append(names, e.Name())
		}
	}
	sort.Strings(names)
	if len(names) == 0 {
		return ""
	}
	return names[len(names)-1]
}

// diffRegion returns [a,b): the smallest range outside of which pre and post agree (post may be longer).
func diffRegion(pre, post []byte) (int, int) {
	a := 0
	for a < len(pre) && a < len(post) && pre[a] == post[a] {
		a++
	}
	b := len(post)
	for b > a && b <= len(pre) && pre[b-1] == post[b-1] {
		b--
	}
	return a, b
}

func applyTxn(db *badger.DB, p Prog, ws []W, seq *int) error {
	txn := db.NewTransaction(true)
	defer txn.Discard()
	for _, w := range ws {
		*seq++
		k := append([]byte{}, p.Keys[w.Key%len(p.Keys)]...)
		var err error
		if w.Del {
			err = txn.Delete(k)
		} else {
			err = txn.Set(k, val(*seq, w.VSize))
		}
		if err != nil {
			return err
		}
	}
	return txn.Commit()
}

// c09Strict disables the known-finding exclusion (witness runs).
var c09Strict = os.Getenv("VERIF_STRICT") != ""

func runC09(c c09Case, rec *evid.Rec) (core.Result, error) {
	var res core.Result
	p := c.Prog
	base := core.Scratch("c09")
	defer os.RemoveAll(base)
	live := filepath.Join(base, "live")
	os.MkdirAll(live, 0o755)
	db, err := p.Spec.Open(live, nil)
	if err != nil {
		return res, fmt.Errorf("open: %v", err)
	}
	closed := false
	defer func() {
		if !closed {
			db.Close()
		}
	}()
	seq := 0
	for _, op := range p.Ops {
		switch op.Kind {
		case "txn":
			if err := applyTxn(db, p, op.Writes, &seq); err != nil {
				return res, fmt.Errorf("history txn: %v", err)
			}
		case "flush":
			if _, err := dbx.Flush(db); err != nil {
				return res, err
			}
		case "compact":
			if err, _ := db.VerifCompact(op.B%3, badger.VerifPrio{Level: op.A % p.Spec.MaxLevels, Score: 2, Adjusted: 2}); err != nil {
				return res, err
			}
		}
	}
	if c.LastKind == "flush" {
		// the torn record is the MANIFEST change set of a flush: the memtable must hold something
		if err := applyTxn(db, p, c.Last, &seq); err != nil {
			return res, fmt.Errorf("last txn: %v", err)
		}
	}
	db.VerifWaitFlushed()
	preState, err := ReadState(db, p.Keys)
	if err != nil {
		return res, err
	}
	pre := filepath.Join(base, "pre")
	if err := copyDir(live, pre); err != nil {
		return res, err
	}
	if c.LastKind == "txn" {
		if err := applyTxn(db, p, c.Last, &seq); err != nil {
			return res, fmt.Errorf("last txn: %v", err)
		}
	} else if ok, err := dbx.Flush(db); err != nil || !ok {
		return res, nil // nothing to flush: no MANIFEST record to tear (trivial case)
	}
	db.VerifWaitFlushed()
	postState, err := ReadState(db, p.Keys)
	if err != nil {
		return res, err
	}
	post := filepath.Join(base, "post")
	if err := copyDir(live, post); err != nil {
		return res, err
	}
	closed = true
	db.Close()

	type target struct {
		kind, file string
	}
	var targets []target
	if c.LastKind == "txn" {
		targets = append(targets, target{"wal", newest(post, ".mem")}, target{"vlog", newest(post, ".vlog")})
	} else {
		targets = append(targets, target{"manifest", "MANIFEST"})
	}
	images, inside := 0, 0
	for _, tg := range targets {
		if tg.file == "" {
			continue
		}
		preBytes, _ := os.ReadFile(filepath.Join(pre, tg.file))
		postBytes, _ := os.ReadFile(filepath.Join(post, tg.file))
		a, b := diffRegion(preBytes, postBytes)
		if b <= a {
			continue // this log did not receive bytes from the last operation
		}
		var cuts []int
		near, stride := 16, 1
		if !core.Thorough() && b-a > 2*near+40 {
			stride = (b - a - 2*near) / 40 // quick tier: both ends of the range and ~40 offsets in between
		}
		for cpos := a; cpos < b; cpos++ {
			if cpos-a < near || b-cpos <= near || (cpos-a)%stride == 0 {
				cuts = append(cuts, cpos)
			}
		}
		for ci, cut := range cuts {
			for fill := 0; fill < 2; fill++ { // 0: remainder missing, 1: remainder zero-filled
				if !core.Thorough() && cut-a >= 12 && b-cut > 12 && (ci+fill)%2 == 1 {
					continue // quick tier: away from the record boundaries alternate the two variants
				}
				if tg.kind == "manifest" && fill == 1 && !c09Strict {
					// Known finding manifest-zero-filled-tail: when the zero-filled remainder starts
					// after the first non-zero byte of the record's length field, replay sees a
					// non-empty change set whose CRC/body are zeros and fails Open with "checksum
					// mismatch" (pinned by TestManifestChecksum). Exactly those cuts are excluded.
					var lf [4]byte
					for i := 0; i < 4 && a+i < cut; i++ {
						lf[i] = postBytes[a+i]
					}
					if lf != [4]byte{} {
						res.Excluded++
						continue
					}
				}
				img := filepath.Join(base, fmt.Sprintf("img-%s-%d-%d", tg.kind, cut, fill))
				// the image a crash in the middle of that append leaves: everything else as before the
				// append (WAL case: the value log already has its bytes, it is written first)
				from := pre
				if tg.kind == "wal" {
					from = post
				}
				if err := copyDir(from, img); err != nil {
					return res, err
				}
				if tg.kind == "manifest" { // the flushed table file exists already
					ents, _ := os.ReadDir(post)
					for _, e := range ents {
						if strings.HasSuffix(e.Name(), ".sst") {
							if _, err := os.Stat(filepath.Join(img, e.Name())); err != nil {
								copyFile(filepath.Join(post, e.Name()), filepath.Join(img, e.Name()))
							}
						}
					}
				}
				torn := append([]byte{}, postBytes...)
				if fill == 0 {
					torn = torn[:cut]
				} else {
					for i := cut; i < b; i++ {
						torn[i] = 0
					}
				}
				if err := os.WriteFile(filepath.Join(img, tg.file), torn, 0o644); err != nil {
					return res, err
				}
				images++
				if cut > a {
					inside++
				}
				label := fmt.Sprintf("%s %s torn at byte %d of the appended range [%d,%d), remainder %s", tg.kind, tg.file, cut, a, b, []string{"missing", "zero-filled"}[fill])
				if err := checkTornImage(p, img, preState, label, core.Thorough() || images%3 == 0); err != nil {
					return res, err
				}
				os.RemoveAll(img)
			}
		}
	}
	_ = postState
	rec.Add("images_opened", images)
	rec.Add("cuts_strictly_inside_a_record", inside)
	res.NonTrivial = inside > 0
	res.Classes = append(res.Classes, "last_op_"+c.LastKind)
	if p.Spec.EncKeyLen > 0 {
		res.Classes = append(res.Classes, "encrypted")
	}
	return res, nil
}

// checkTornImage: Open succeeds, the state is exactly the one before the torn operation, the torn
// bytes are never returned, and the store keeps working across one more commit and a clean re-open.
func checkTornImage(p Prog, img string, want State, label string, followUp bool) error {
	db, err := p.Spec.Open(img, nil)
	if err != nil {
		return fmt.Errorf("%s: Open fails: %v", label, err)
	}
	db.VerifWaitFlushed()
	st, err := ReadState(db, p.Keys)
	if err != nil {
		db.Close()
		return fmt.Errorf("%s: %v", label, err)
	}
	if !st.equal(want) {
		db.Close()
		return fmt.Errorf("%s: recovered state %s, want the state before the torn operation %s", label, st, want)
	}
	if !followUp {
		return db.Close()
	}
	k := append([]byte{}, p.Keys[0]...)
	nv := []byte("after-torn-tail")
	if err := db.Update(func(txn *badger.Txn) error { return txn.Set(k, nv) }); err != nil {
		db.Close()
		return fmt.Errorf("%s: commit after recovery: %v", label, err)
	}
	if _, err := dbx.Flush(db); err != nil { // a MANIFEST append after the recovery
		db.Close()
		return fmt.Errorf("%s: flush after recovery: %v", label, err)
	}
	if err := db.Close(); err != nil {
		return fmt.Errorf("%s: Close: %v", label, err)
	}
	db2, err := p.Spec.Open(img, nil)
	if err != nil {
		return fmt.Errorf("%s: second Open (after one commit and a flush) fails: %v", label, err)
	}
	st2, err := ReadState(db2, p.Keys)
	db2.Close()
	if err != nil {
		return fmt.Errorf("%s: %v", label, err)
	}
	w2 := want.clone()
	w2[string(k)] = nv
	if !st2.equal(w2) {
		return fmt.Errorf("%s: state after recovery, one commit, flush and re-open is %s, want %s", label, st2, w2)
	}
	return nil
}

// TestKF_C09Strict replays a saved case with the known-finding exclusion off.
func TestKF_C09Strict(t *testing.T) {
	if !core.Replaying() {
		t.Skip("witness runner: replay only")
	}
	c09Strict = true
	defer func() { c09Strict = false }()
	core.Run(t, "KF", "witness", "witness replay", genC09, runC09)
}

func TestC09_TornTails(t *testing.T) {
	core.Run(t, "C09", "torn",
		"rapid-generated histories (0-10 transactions/flushes/compactions; encryption on/off) followed by one last operation whose log records get torn: a 1-4 entry transaction with inline and value-log values (newest WAL and newest value log) or a memtable flush (MANIFEST change set). The appended byte range is found by diffing quiescent copies taken before and after that operation; for cuts inside it (thorough: EVERY byte offset; quick: all of the first/last 16 bytes and ~40 evenly spaced offsets in between) x {remainder missing, remainder zero-filled} the crash image (everything else as before the append) is opened. Oracle: Open succeeds, the state equals the state before the torn operation (the torn transaction is entirely absent), and after one more commit, a flush and a clean re-open the store still agrees. Non-trivial = >=1 cut strictly inside a record.",
		genC09, runC09)
}

var _ = bytes.Equal
