package crash

import (
	"bytes"
	"fmt"
	"io"
	"os"
	"os/exec"
	"path/filepath"
	"strings"
	"sync"
	"syscall"
	"testing"

	"pgregory.net/rapid"

	"verifharness/internal/core"
	"verifharness/internal/evid"
)

// ---- durability recorder (child side) --------------------------------------------------------------
//
// The statement of C10: after a power loss only file contents covered by an explicit msync/fsync
// and directory entries covered by a directory fsync survive. The recorder keeps, per file, the
// bytes the file had when badger announced a sync of it (VerifFile("sync", path) is emitted right
// before the sync call, so the snapshot counts as durable only from the next hook on), and the
// directory listing at the last directory fsync. At the loss point it materialises the
// adversarial image in a sibling directory.
//
// Variants (what the statement leaves open is enumerated):
//
//	0  entries exist as at the loss point; a file that was never synced has its size but reads as zeros
//	1  as 0, but a never-synced file is empty (size not durable either)
//	2  strict directory model: only entries present at the last directory fsync exist (files created
//	   later vanish, files removed later come back with their last synced content)
type recorder struct {
	mu       sync.Mutex
	cs       ChildSpec
	shadow   string
	durable  map[string]bool // file has a durable snapshot in shadow/
	pending  map[string]bool // snapshot taken, becomes durable at the next hook
	listing  map[string]bool // directory entries at the last (durable) directory fsync
	pendList map[string]bool
	listIno  map[string]uint64 // inode of each listed entry: names are reused (NNNNN.mem after a re-open)
	pendIno  map[string]uint64
	everSync bool
	ino      map[string]uint64
}

func inode(path string) uint64 {
	fi, err := os.Stat(path)
	if err != nil {
		return 0
	}
	if st, ok := fi.Sys().(*syscall.Stat_t); ok {
		return st.Ino
	}
	return 0
}

func newRecorder(cs ChildSpec) *recorder {
	r := &recorder{cs: cs, shadow: cs.ImageDir + ".shadow", durable: map[string]bool{}, pending: map[string]bool{}}
	os.MkdirAll(r.shadow, 0o755)
	return r
}

func copyFile(src, dst string) error {
	in, err := os.Open(src)
	if err != nil {
		return err
	}
	defer in.Close()
	out, err := os.Create(dst)
	if err != nil {
		return err
	}
	defer out.Close()
	_, err = io.Copy(out, in)
	return err
}

// tick promotes what was announced before the previous hook.
func (r *recorder) tick() {
	for f := range r.pending {
		os.Rename(filepath.Join(r.shadow, f+".pending"), filepath.Join(r.shadow, f))
		r.durable[f] = true
	}
	r.pending = map[string]bool{}
	if r.pendList != nil {
		r.listing, r.pendList = r.pendList, nil
		r.listIno, r.pendIno = r.pendIno, nil
		r.everSync = true
	}
}

func (r *recorder) event(op, path string) {
	r.mu.Lock()
	defer r.mu.Unlock()
	r.tick()
	switch op {
	case "sync":
		if filepath.Dir(path) != filepath.Clean(r.cs.Dir) {
			return
		}
		name := filepath.Base(path)
		if copyFile(path, filepath.Join(r.shadow, name+".pending")) == nil {
			r.pending[name] = true
			if r.ino == nil {
				r.ino = map[string]uint64{}
			}
			r.ino[name] = inode(path) // names are reused (NNNNN.mem after a re-open): a snapshot belongs to one inode
		}
	case "rename":
		// MANIFEST-REWRITE was written and fsynced, then renamed over MANIFEST: the synced bytes
		// now live under the new name (whether the rename itself is durable is the directory
		// model's business, see the variants).
		if filepath.Base(path) == "MANIFEST" {
			for _, suffix := range []string{"", ".pending"} {
				src := filepath.Join(r.shadow, "MANIFEST-REWRITE"+suffix)
				if _, err := os.Stat(src); err == nil {
					os.Rename(src, filepath.Join(r.shadow, "MANIFEST"+suffix))
				}
			}
			if r.durable["MANIFEST-REWRITE"] {
				r.durable["MANIFEST"] = true
				delete(r.durable, "MANIFEST-REWRITE")
			}
			if r.pending["MANIFEST-REWRITE"] {
				r.pending["MANIFEST"] = true
				delete(r.pending, "MANIFEST-REWRITE")
			}
		}
	case "syncdir":
		if filepath.Clean(path) != filepath.Clean(r.cs.Dir) {
			return
		}
		l := map[string]bool{}
		li := map[string]uint64{}
		ents, _ := os.ReadDir(r.cs.Dir)
		for _, e := range ents {
			l[e.Name()] = true
			li[e.Name()] = inode(filepath.Join(r.cs.Dir, e.Name()))
		}
		r.pendList, r.pendIno = l, li
	}
}

// alwaysDurable: files badger writes with O_SYNC / O_DSYNC semantics or that carry no data.
func alwaysDurable(name string) bool { return name == "KEYREGISTRY" || name == "LOCK" }

func (r *recorder) materialise() {
	r.mu.Lock()
	defer r.mu.Unlock()
	img := r.cs.ImageDir
	os.MkdirAll(img, 0o755)
	now := map[string]int64{}
	ents, _ := os.ReadDir(r.cs.Dir)
	for _, e := range ents {
		if fi, err := e.Info(); err == nil {
			now[e.Name()] = fi.Size()
		}
	}
	if _, gone := now["MANIFEST-REWRITE"]; !gone && r.durable["MANIFEST-REWRITE"] && !r.durable["MANIFEST"] {
		// the rename already happened but its hook has not been reached yet
		os.Rename(filepath.Join(r.shadow, "MANIFEST-REWRITE"), filepath.Join(r.shadow, "MANIFEST"))
		r.durable["MANIFEST"] = true
	}
	exists := map[string]bool{}
	if r.cs.Variant == 2 && r.everSync {
		for f := range r.listing {
			exists[f] = true
		}
		for f := range now {
			if alwaysDurable(f) {
				exists[f] = true
			}
		}
	} else {
		for f := range now {
			exists[f] = true
		}
	}
	for f := range exists {
		dst := filepath.Join(img, f)
		switch {
		case alwaysDurable(f):
			copyFile(filepath.Join(r.cs.Dir, f), dst)
		case r.durable[f] && (f == "MANIFEST" || r.ino[f] == inode(filepath.Join(r.cs.Dir, f))):
			copyFile(filepath.Join(r.shadow, f), dst)
		case r.durable[f] && r.cs.Variant == 2 && inode(filepath.Join(r.cs.Dir, f)) == 0 && r.ino[f] == r.listIno[f]:
			// the entry was removed after the last directory fsync: the file comes back with the
			// last synced content OF THAT FILE (not of an earlier file that had the same name)
			copyFile(filepath.Join(r.shadow, f), dst)
		case strings.HasSuffix(f, ".pending"):
		default:
			// never synced: the entry exists, the content does not
			out, err := os.Create(dst)
			if err == nil {
				if r.cs.Variant != 1 {
					out.Truncate(now[f])
				}
				out.Close()
			}
		}
	}
}

// ---- parent side -----------------------------------------------------------------------------------

func powerLossCampaign(p Prog, all bool, variants []int) (crashStats, error) {
	cs := crashStats{sites: map[string]int{}}
	base := core.Scratch("ploss")
	if os.Getenv("VERIF_KEEP") != "" {
		fmt.Println("KEEPING", base)
	} else {
		defer os.RemoveAll(base)
	}
	dry := ChildSpec{Prog: p, Dir: filepath.Join(base, "dry"), AckPath: filepath.Join(base, "dry.ack"), PowerLoss: true, ImageDir: filepath.Join(base, "dry.img")}
	os.MkdirAll(dry.Dir, 0o755)
	exit, out, err := runChild(dry)
	if err != nil || exit != "ok" {
		return cs, fmt.Errorf("dry run failed (%s): %v %s", exit, err, tailBytes(out))
	}
	_, _, total, errLine := ParseAcks(dry.AckPath)
	if errLine != "" || total <= 0 {
		return cs, fmt.Errorf("dry run: %s (points %d)", errLine, total)
	}
	cs.points = total
	var pts []int
	if all {
		// every hook; workloads with more than maxLossPoints hooks (each loss point re-runs the workload
		// up to that hook under the recorder, so the cost is quadratic) get every k-th hook, starting
		// at a generated offset, plus all aimed hooks below
		step := (total + maxLossPoints - 1) / maxLossPoints
		off := 0
		if len(p.Points) > 0 && step > 1 {
			off = p.Points[0] % step
		}
		for i := 1 + off; i <= total; i += step {
			pts = append(pts, i)
		}
		cs.stride = step
	} else {
		pts = stratified(dry.AckPath, p.Points, total)
	}
	// write batches whose memtable rotation fell between two of their requests: part of the batch sits
	// in the WAL of the rotated memtable, the rest in the new one. Aim extra loss points at the end of
	// such a batch (the rotated memtable is usually not flushed yet).
	aimed := map[int]bool{}
	rot := batchRotationPoints(dry.AckPath)
	cs.batchRot = len(rot)
	have := map[int]bool{}
	for _, n := range pts {
		have[n] = true
	}
	for i, n := range rot {
		if !all && i >= 2 {
			break
		}
		for _, m := range []int{n, n + 1, n + 3} {
			if m <= total {
				aimed[m] = true
				if !have[m] {
					have[m] = true
					pts = append(pts, m)
				}
			}
		}
	}
	for i, n := range pts {
		variant := variants[i%len(variants)]
		dir := filepath.Join(base, fmt.Sprintf("k%d", n))
		img := filepath.Join(base, fmt.Sprintf("k%d.img", n))
		os.MkdirAll(dir, 0o755)
		c := ChildSpec{Prog: p, Dir: dir, AckPath: filepath.Join(base, fmt.Sprintf("k%d.ack", n)), KillAt: n, PowerLoss: true, ImageDir: img, Variant: variant}
		exit, out, err := runChild(c)
		if err != nil {
			return cs, fmt.Errorf("loss point %d: %v", n, err)
		}
		acked, issued, fin, errLine := ParseAcks(c.AckPath)
		if errLine != "" {
			return cs, fmt.Errorf("loss point %d: workload error: %s", n, errLine)
		}
		if exit == "ok" && fin >= 0 {
			os.RemoveAll(dir)
			continue // point not reached in this schedule
		}
		if exit != "signal:killed" {
			return cs, fmt.Errorf("loss point %d: child ended with %s: %s", n, exit, tailBytes(out))
		}
		site := killSite(c.AckPath)
		cs.sites[site]++
		cs.runs++
		if aimed[n] {
			cs.batchRotRuns++
		}
		if acked > 0 {
			cs.midOp++
		}
		label := fmt.Sprintf("power loss at hook %d/%d (%s; image variant %d; acked %d, issued %d)", n, total, site, variant, acked, issued)
		dbg := os.Getenv("VERIF_C10_DEBUG") // development aid: keep the artefacts of a failing loss point
		if os.Getenv("VERIF_KEEP") != "" || dbg != "" {
			exec.Command("cp", "-r", img, img+".orig").Run()
		}
		if _, err := verifyRecovered(p, img, acked, issued, label); err != nil {
			if dbg != "" {
				dst := filepath.Join(dbg, fmt.Sprintf("fail-%d-k%d", os.Getpid(), n))
				os.MkdirAll(dst, 0o755)
				exec.Command("cp", "-r", img+".orig", img+".shadow", c.AckPath, dry.AckPath, dst).Run()
				os.WriteFile(filepath.Join(dst, "error.txt"), []byte(err.Error()), 0o644)
			}
			return cs, err
		}
		if dbg != "" {
			os.RemoveAll(img + ".orig")
		}
		os.RemoveAll(dir)
		os.RemoveAll(img)
		os.RemoveAll(img + ".shadow")
	}
	return cs, nil
}

const maxLossPoints = 500

// batchRotationPoints returns, from the site log of the dry run, the hook index of the "write.lsm.done"
// hook of every write batch in which the memtable was rotated after at least one request of the same
// batch had already been written (hooks of other goroutines interleave; their names differ).
func batchRotationPoints(dryAck string) []int {
	raw, _ := os.ReadFile(dryAck)
	var out []int
	reqs, rotated := 0, false
	for _, line := range bytes.Split(raw, []byte("\n")) {
		if len(line) < 3 || line[0] != 'S' {
			continue
		}
		var n int
		var name string
		fmt.Sscanf(string(line[2:]), "%d %s", &n, &name)
		switch name {
		case "write.vlog.pre":
			reqs, rotated = 0, false
		case "write.lsm.req":
			reqs++
		case "mt.rotate.done":
			if reqs > 0 {
				rotated = true
			}
		case "write.lsm.done":
			if rotated {
				out = append(out, n)
			}
			reqs, rotated = 0, false
		}
	}
	return out
}

// c10StrictDir switches the campaign to the strict directory-entry model (variant 2). Used by the
// known-finding witness and, with VERIF_STRICT set, as a development aid.
var c10StrictDir = os.Getenv("VERIF_STRICT") != ""

// TestKF_C10StrictDir replays a saved workload under the strict directory-entry model.
func TestKF_C10StrictDir(t *testing.T) {
	if !core.Replaying() {
		t.Skip("witness runner: replay only")
	}
	c10StrictDir = true
	defer func() { c10StrictDir = false }()
	TestC10_PowerLoss(t)
}

var wPower = map[string]int{"txn": 10, "burst": 3, "asyncburst": 3, "batchrot": 4, "wbatch": 3, "flush": 4, "compact": 4, "gc": 1, "churn": 1, "reopen": 1}

func TestC10_PowerLoss(t *testing.T) {
	all := core.Thorough()
	core.Run(t, "C10", "powerloss",
		"rapid-generated single-committer workloads with SyncWrites=true (transactions; asynchronous bursts committed back to back with CommitWith, which form write batches of several requests, some sized to fill the memtable so that its rotation falls between two requests of one batch; flushes, compactions, GC, re-opens) run in a child process that maintains a durability shadow: per file the bytes it had when badger announced an msync/fsync of it, per directory the listing at the last directory fsync. At the n-th hook (quick: 6 sampled hooks per workload plus 3 aimed at the end of each of up to two batches that the dry run shows with a rotation between two requests; thorough: every hook, or every k-th from a generated offset plus all aimed ones for a workload with more than 500 hooks) the child materialises the adversarial power-loss image - every file holds exactly its last synced content, a never-synced file reads as zeros (variant 0) or is empty (variant 1) - and dies; the parent opens the image. Oracle as C08: Open succeeds, state = a commit prefix containing every acknowledged commit, structure intact, further commits work. Known finding (strict directory-entry model, variant 2) is handled by a separate witness. Non-trivial = the loss point came after >=1 acknowledged commit.",
		func(rt *rapid.T) Prog {
			return Gen(rt, GenCfg{MinOps: 4, MaxOps: 20, Weights: wPower, AllowEnc: true, NPoints: 6, SyncWrites: true})
		},
		func(p Prog, rec *evid.Rec) (core.Result, error) {
			variants := []int{0, 2, 1, 2}
			if c10StrictDir {
				variants = []int{2}
			}
			cs, err := powerLossCampaign(p, all, variants)
			res := core.Result{NonTrivial: cs.midOp > 0}
			rec.Add("hooks_in_dry_run", cs.points)
			rec.Add("loss_runs", cs.runs)
			if cs.stride > 1 {
				rec.Add("workloads_enumerated_with_a_stride", 1)
			}
			rec.Add("batches_rotated_between_requests", cs.batchRot)
			rec.Add("loss_runs_aimed_at_such_a_batch", cs.batchRotRuns)
			for s, n := range cs.sites {
				if s != "" {
					rec.Add("site:"+s, n)
				}
			}
			if cs.midOp > 0 {
				res.Classes = append(res.Classes, "loss_after_acked_commit")
			}
			if cs.batchRot > 0 {
				res.Classes = append(res.Classes, "batch_rotated_between_requests")
			}
			return res, err
		})
}
