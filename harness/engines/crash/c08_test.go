package crash

import (
	"bytes"
	"encoding/json"
	"fmt"
	"os"
	"os/exec"
	"path/filepath"
	"sort"
	"strings"
	"sync"
	"sync/atomic"
	"syscall"
	"testing"
	"time"

	badger "github.com/dgraph-io/badger/v4"
	"github.com/dgraph-io/badger/v4/pb"
	"github.com/dgraph-io/badger/v4/table"
	"github.com/dgraph-io/badger/v4/y"
	"pgregory.net/rapid"

	"verifharness/internal/core"
	"verifharness/internal/dbx"
	"verifharness/internal/evid"
)

// ---- child side ------------------------------------------------------------------------------------

// TestCrashChild is the workload process. It is only ever started by the parent checks.
func TestCrashChild(t *testing.T) {
	specPath := os.Getenv("VERIF_CRASH_CHILD")
	if specPath == "" {
		t.Skip("child process entry point")
	}
	cs, err := loadChildSpec(specPath)
	if err != nil {
		t.Fatalf("child spec: %v", err)
	}
	f, err := os.OpenFile(cs.AckPath, os.O_CREATE|os.O_WRONLY|os.O_APPEND, 0o644)
	if err != nil {
		t.Fatalf("ack log: %v", err)
	}
	ack := &ackLog{f: f}
	var count atomic.Int64
	var rec *recorder
	if cs.PowerLoss {
		rec = newRecorder(cs)
	}
	die := func() {
		if rec != nil {
			// the power-loss instant is NOW: the image is built from what is durable at this moment,
			// so nothing acknowledged from here on counts (the process lives a little longer)
			ack.freeze()
			rec.materialise()
		}
		_ = syscall.Kill(os.Getpid(), syscall.SIGKILL)
		select {}
	}
	y.VerifSetPointFn(func(name string) {
		if rec != nil {
			rec.mu.Lock()
			rec.tick()
			rec.mu.Unlock()
		}
		n := int(count.Add(1))
		if cs.KillAt == 0 && !cs.Recover {
			ack.write("S %d %s", n, name) // dry run: remember which site every hook index is
		}
		if cs.KillAt > 0 && n == cs.KillAt {
			ack.write("K %d %s", n, name)
			die()
		}
	})
	if rec != nil {
		y.VerifSetFileFn(func(op, path string) {
			rec.event(op, path)
			n := int(count.Add(1))
			if cs.KillAt == 0 {
				ack.write("S %d file:%s", n, op)
			}
			if cs.KillAt > 0 && n == cs.KillAt {
				ack.write("K %d file:%s", n, op)
				die()
			}
		})
	}
	db, err := cs.Prog.Spec.Open(cs.Dir, nil)
	if err != nil {
		ack.write("E open: %v", err)
		return
	}
	if cs.Recover {
		if err := db.Close(); err != nil {
			ack.write("E close: %v", err)
		}
		ack.write("P %d", count.Load())
		return
	}
	p := cs.Prog
	seq, idx := 0, 0
	var pendingCallbacks sync.WaitGroup
	for i := 0; i < len(p.Ops); i++ {
		op := p.Ops[i]
		if op.Kind != "atxn" && op.Kind != "atxnwait" {
			pendingCallbacks.Wait() // every other step runs with no write in flight
		}
		switch op.Kind {
		case "atxn", "atxnwait":
			// A run of asynchronous transactions: all of them are prepared first (NewTransaction waits
			// until every earlier commit is applied, so preparing them one by one would serialise
			// them), then committed with CommitWith back to back - requests queue up behind the write
			// in progress and form multi-request write batches.
			j := i
			for p.Ops[j].Kind == "atxn" && j+1 < len(p.Ops) && (p.Ops[j+1].Kind == "atxn" || p.Ops[j+1].Kind == "atxnwait") {
				j++
			}
			var txns []*badger.Txn
			for _, o := range p.Ops[i : j+1] {
				txn := db.NewTransaction(true)
				for _, w := range o.Writes {
					seq++
					k := append([]byte{}, p.Keys[w.Key%len(p.Keys)]...)
					var err error
					if w.Del {
						err = txn.Delete(k)
					} else {
						err = txn.Set(k, val(seq, w.VSize))
					}
					if err != nil {
						ack.write("E set: %v", err)
						return
					}
				}
				txns = append(txns, txn)
			}
			for _, txn := range txns {
				idx++
				myIdx := idx
				ack.write("I %d", myIdx)
				pendingCallbacks.Add(1)
				txn.CommitWith(func(err error) {
					if err != nil {
						ack.write("E async commit: %v", err)
					} else {
						ack.write("A %d", myIdx)
					}
					pendingCallbacks.Done()
				})
			}
			if p.Ops[j].Kind == "atxnwait" {
				pendingCallbacks.Wait()
			}
			i = j
		case "wbatch":
			idx++
			ack.write("I %d", idx)
			wb := db.NewWriteBatch()
			var err error
			for _, w := range op.Writes {
				seq++
				k := append([]byte{}, p.Keys[w.Key%len(p.Keys)]...)
				if w.Del {
					err = wb.Delete(k)
				} else {
					err = wb.Set(k, val(seq, w.VSize))
				}
				if err != nil {
					ack.write("E batch set: %v", err)
					return
				}
			}
			if op.A%2 == 1 {
				seq++
				err = wb.WriteList(&pb.KVList{Kv: []*pb.KV{{Key: versionedKey(idx), Value: val(seq, 12), Version: 1}}})
				if err != nil {
					ack.write("E batch writelist: %v", err)
					return
				}
			}
			if err := wb.Flush(); err != nil {
				ack.write("E batch flush: %v", err)
				return
			}
			ack.write("A %d", idx)
		case "txn":
			idx++
			ack.write("I %d", idx)
			txn := db.NewTransaction(true)
			for _, w := range op.Writes {
				seq++
				k := append([]byte{}, p.Keys[w.Key%len(p.Keys)]...)
				var err error
				if w.Del {
					err = txn.Delete(k)
				} else {
					err = txn.Set(k, val(seq, w.VSize))
				}
				if err != nil {
					ack.write("E set: %v", err)
					return
				}
			}
			if err := txn.Commit(); err != nil {
				ack.write("E commit: %v", err)
				return
			}
			ack.write("A %d", idx)
		case "dropprefix":
			idx++
			ack.write("I %d", idx)
			if err := db.DropPrefix(p.prefixOf(op)); err != nil {
				ack.write("E dropprefix: %v", err)
				return
			}
			ack.write("A %d", idx)
		case "dropall":
			idx++
			ack.write("I %d", idx)
			if err := db.DropAll(); err != nil {
				ack.write("E dropall: %v", err)
				return
			}
			ack.write("A %d", idx)
		case "flush":
			if err := dbx.RelieveL0(db, 30); err != nil {
				ack.write("E relieve: %v", err)
				return
			}
			if _, err := dbx.Flush(db); err != nil {
				ack.write("E flush: %v", err)
				return
			}
		case "compact":
			lvl := op.A % p.Spec.MaxLevels
			if err, _ := db.VerifCompact(op.B%3, badger.VerifPrio{Level: lvl, Score: 2, Adjusted: 2}); err != nil {
				ack.write("E compact: %v", err)
				return
			}
		case "gc":
			_ = db.RunValueLogGC(0.001)
		case "reopen":
			if err := db.Close(); err != nil {
				ack.write("E close: %v", err)
				return
			}
			db, err = p.Spec.Open(cs.Dir, nil)
			if err != nil {
				ack.write("E reopen: %v", err)
				return
			}
		}
	}
	pendingCallbacks.Wait()
	if err := db.Close(); err != nil {
		ack.write("E close: %v", err)
	}
	ack.write("P %d", count.Load())
}

// ---- parent side -----------------------------------------------------------------------------------

// runChild starts the workload process and waits for it (killed children are expected).
func runChild(cs ChildSpec) (exit string, out []byte, err error) {
	specPath := cs.AckPath + ".spec.json"
	b, _ := json.Marshal(cs)
	if err := os.WriteFile(specPath, b, 0o644); err != nil {
		return "", nil, err
	}
	cmd := exec.Command(os.Args[0], "-test.run", "^TestCrashChild$", "-test.timeout", "120s", "-test.count", "1")
	cmd.Env = append(os.Environ(), "VERIF_CRASH_CHILD="+specPath, "VERIF_EVID_DIR=", "VERIF_FAIL_DIR=", "VERIF_JOURNAL_DIR=", "VERIF_REPLAY=")
	var buf bytes.Buffer
	cmd.Stdout, cmd.Stderr = &buf, &buf
	done := make(chan error, 1)
	if err := cmd.Start(); err != nil {
		return "", nil, err
	}
	go func() { done <- cmd.Wait() }()
	select {
	case werr := <-done:
		if werr == nil {
			return "ok", buf.Bytes(), nil
		}
		if ee, ok := werr.(*exec.ExitError); ok {
			if ws, ok := ee.Sys().(syscall.WaitStatus); ok && ws.Signaled() {
				return "signal:" + ws.Signal().String(), buf.Bytes(), nil
			}
			return fmt.Sprintf("exit:%d", ee.ExitCode()), buf.Bytes(), nil
		}
		return "", buf.Bytes(), werr
	case <-time.After(150 * time.Second):
		_ = cmd.Process.Kill()
		return "timeout", buf.Bytes(), fmt.Errorf("child did not finish")
	}
}

// structure is the C14 predicate after recovery: validation passes, *.sst files == tables.
func structure(db *badger.DB, dir string) error {
	if err := db.VerifValidateLevels(); err != nil {
		return fmt.Errorf("level validation fails after recovery: %v", err)
	}
	ids := map[uint64]bool{}
	for _, t := range db.Tables() {
		ids[t.ID] = true
	}
	ents, _ := os.ReadDir(dir)
	for _, e := range ents {
		if id, ok := table.ParseFileID(e.Name()); ok && !ids[id] {
			return fmt.Errorf("after recovery %s exists on disk but is not part of the tree", e.Name())
		}
	}
	for id := range ids {
		if _, err := os.Stat(table.NewFilename(id, dir)); err != nil {
			return fmt.Errorf("after recovery table %d is in the tree but has no file", id)
		}
	}
	return nil
}

type verdict struct {
	prefix       int
	crashInFlush bool
	site         string
}

// verifyRecovered opens a crashed directory and applies the commit-prefix oracle (C08), the
// structural predicate (C14), the timestamp rule (C11) and the "accepts further commits" rule.
func verifyRecovered(p Prog, dir string, acked, issued int, label string) (int, error) {
	states, kinds := p.States()
	db, err := p.Spec.Open(dir, nil)
	if err != nil {
		return 0, fmt.Errorf("%s: Open fails after the crash: %v", label, err)
	}
	closed := false
	defer func() {
		if !closed {
			db.Close()
		}
	}()
	db.VerifWaitFlushed() // recovered memtables are flushed in the background; wait until the tree is quiescent
	if err := structure(db, dir); err != nil {
		return 0, fmt.Errorf("%s: %v", label, err)
	}
	st, err := ReadState(db, p.Keys)
	if err != nil {
		return 0, fmt.Errorf("%s: %v", label, err)
	}
	match := -1
	for i := len(states) - 1; i >= 0; i-- {
		if i <= issued && st.equal(states[i]) {
			match = i
			break
		}
	}
	inFlight := ""
	if issued > acked && issued >= 1 && issued <= len(kinds) {
		inFlight = kinds[issued-1]
	}
	inFlightDrop := inFlight == "dropprefix" || inFlight == "dropall"
	if match < acked || match < 0 {
		if inFlight == "mixbatch" {
			// A write batch that mixes entries with and without an explicit version is written without
			// transaction markers (by design: its entries have different versions), so a crash inside it
			// may leave any subset of its entries: every key has its value from before or from after it.
			pre, post := states[issued-1], states[issued]
			keys := map[string]bool{}
			for k := range st {
				keys[k] = true
			}
			for k := range pre {
				keys[k] = true
			}
			for k := range post {
				keys[k] = true
			}
			for k := range keys {
				v, ok := st[k]
				a, okA := pre[k]
				b, okB := post[k]
				if !(ok == okA && bytes.Equal(v, a)) && !(ok == okB && bytes.Equal(v, b)) {
					return 0, fmt.Errorf("%s: crash inside a write batch with an explicitly versioned entry: key %x has neither its value from before nor from after the batch (acked %d, issued %d). recovered: %s", label, k, acked, issued, st)
				}
			}
			match = issued - 1
		} else if inFlightDrop {
			// a crash inside a drop: every key has its pre-drop value or is absent (C29)
			pre := states[issued-1]
			for k, v := range st {
				if w, ok := pre[k]; !ok || !bytes.Equal(v, w) {
					return 0, fmt.Errorf("%s: crash inside %s: key %x has a value that is not its pre-drop value", label, kinds[issued-1], k)
				}
			}
			if kinds[issued-1] == "dropprefix" {
				// keys outside the dropped prefix are untouched by the drop
				pfx := p.prefixOf(p.stateOp(issued - 1))
				for k, w := range pre {
					if bytes.HasPrefix([]byte(k), pfx) {
						continue
					}
					if v, ok := st[k]; !ok || !bytes.Equal(v, w) {
						return 0, fmt.Errorf("%s: crash inside DropPrefix(%x): key %x outside the prefix lost its value", label, pfx, []byte(k))
					}
				}
			}
			match = issued - 1
		} else if match >= 0 {
			return 0, fmt.Errorf("%s: recovered state equals the state after %d of %d issued commits, but commit %d had been acknowledged (acknowledged commit lost). recovered: %s", label, match, issued, acked, st)
		} else {
			return 0, fmt.Errorf("%s: recovered state is not the result of any prefix of the issued commits (acked %d, issued %d): recovered %s | after acked prefix: %s | after all issued: %s",
				label, acked, issued, st, states[acked], states[min(issued, len(states)-1)])
		}
	}
	// the DB keeps working: a further commit gets a timestamp above everything stored and survives a clean re-open
	before := db.MaxVersion()
	k := append([]byte{}, p.Keys[0]...)
	nv := []byte("post-crash-commit")
	if err := db.Update(func(txn *badger.Txn) error { return txn.Set(k, nv) }); err != nil {
		return 0, fmt.Errorf("%s: commit after recovery fails: %v", label, err)
	}
	var ver uint64
	_ = db.View(func(txn *badger.Txn) error {
		it, err := txn.Get(k)
		if err == nil {
			ver = it.Version()
		}
		return nil
	})
	if ver <= before {
		return 0, fmt.Errorf("%s: first commit after recovery got version %d, not above the largest stored version %d", label, ver, before)
	}
	want := st.clone()
	want[string(k)] = nv
	closed = true
	if err := db.Close(); err != nil {
		return 0, fmt.Errorf("%s: Close after recovery: %v", label, err)
	}
	db2, err := p.Spec.Open(dir, nil)
	if err != nil {
		return 0, fmt.Errorf("%s: clean re-open after recovery fails: %v", label, err)
	}
	st2, err := ReadState(db2, p.Keys)
	db2.Close()
	if err != nil {
		return 0, fmt.Errorf("%s: %v", label, err)
	}
	if !st2.equal(want) {
		return 0, fmt.Errorf("%s: state after recovery + one commit + clean re-open differs: %s, want %s", label, st2, want)
	}
	return match, nil
}

type crashStats struct {
	points, runs, midOp, recoveries int
	stride                          int // C10 thorough: every stride-th hook of a long workload
	batchRot, batchRotRuns          int // write batches with a memtable rotation between two of their requests; loss runs aimed at them
	sites                           map[string]int
}

// crashCampaign runs the dry run and then one child per selected crash point.
func crashCampaign(p Prog, all bool, recoverToo bool) (crashStats, error) {
	cs := crashStats{sites: map[string]int{}}
	base := core.Scratch("crash")
	if os.Getenv("VERIF_KEEP") != "" {
		fmt.Println("KEEPING", base)
	} else {
		defer os.RemoveAll(base)
	}
	dry := ChildSpec{Prog: p, Dir: filepath.Join(base, "dry"), AckPath: filepath.Join(base, "dry.ack")}
	os.MkdirAll(dry.Dir, 0o755)
	exit, out, err := runChild(dry)
	if err != nil || exit != "ok" {
		return cs, fmt.Errorf("dry run of the workload failed (%s): %v %s", exit, err, tailBytes(out))
	}
	_, issuedAll, total, errLine := ParseAcks(dry.AckPath)
	if errLine != "" {
		return cs, fmt.Errorf("workload error without any crash: %s", errLine)
	}
	if total <= 0 {
		return cs, fmt.Errorf("dry run reported no crash points: %s", tailBytes(out))
	}
	cs.points = total
	if _, err := verifyRecovered(p, dry.Dir, issuedAll, issuedAll, "no crash"); err != nil {
		return cs, err
	}
	var pts []int
	if all {
		for i := 1; i <= total; i++ {
			pts = append(pts, i)
		}
	} else {
		pts = stratified(dry.AckPath, p.Points, total)
	}
	for _, n := range pts {
		dir := filepath.Join(base, fmt.Sprintf("k%d", n))
		os.MkdirAll(dir, 0o755)
		c := ChildSpec{Prog: p, Dir: dir, AckPath: filepath.Join(base, fmt.Sprintf("k%d.ack", n)), KillAt: n}
		exit, out, err := runChild(c)
		if err != nil {
			return cs, fmt.Errorf("crash point %d: %v", n, err)
		}
		acked, issued, fin, errLine := ParseAcks(c.AckPath)
		if errLine != "" {
			return cs, fmt.Errorf("crash point %d: workload error before the crash: %s", n, errLine)
		}
		if exit == "ok" && fin >= 0 {
			// the schedule differed from the dry run and the point was never reached: still a valid (uncrashed) run
		} else if exit != "signal:killed" {
			return cs, fmt.Errorf("crash point %d: child ended with %s: %s", n, exit, tailBytes(out))
		}
		site := killSite(c.AckPath)
		cs.sites[site]++
		cs.runs++
		if issued > acked || (site != "" && site != "write.ack.pre") {
			cs.midOp++
		}
		label := fmt.Sprintf("crash point %d/%d (%s, acked %d, issued %d)", n, total, site, acked, issued)
		if recoverToo && n%2 == 0 {
			// crash the recovery as well (depth 2): kill the re-opening process at one of its own points
			rc := ChildSpec{Prog: p, Dir: dir, AckPath: filepath.Join(base, fmt.Sprintf("k%d.rec.ack", n)), KillAt: 1 + n%17, Recover: true}
			if _, _, err := runChild(rc); err != nil {
				return cs, fmt.Errorf("%s: recovery child: %v", label, err)
			}
			cs.recoveries++
			label += " + crash during recovery at point " + fmt.Sprint(rc.KillAt)
		}
		if os.Getenv("VERIF_KEEP") != "" {
			exec.Command("cp", "-r", dir, dir+".crashed").Run()
		}
		if _, err := verifyRecovered(p, dir, acked, issued, label); err != nil {
			return cs, err
		}
		os.RemoveAll(dir)
	}
	return cs, nil
}

// stratified picks crash points so that rare sites (compaction, flush, GC, MANIFEST rewrite) are
// hit as often as the very frequent ones (WAL stores): choose a site, then one of its hits.
func stratified(dryAck string, picks []int, total int) []int {
	bySite := map[string][]int{}
	raw, _ := os.ReadFile(dryAck)
	for _, line := range bytes.Split(raw, []byte("\n")) {
		if len(line) > 2 && line[0] == 'S' {
			var n int
			var name string
			fmt.Sscanf(string(line[2:]), "%d %s", &n, &name)
			bySite[name] = append(bySite[name], n)
		}
	}
	var sites []string
	for s := range bySite {
		sites = append(sites, s)
	}
	sort.Strings(sites)
	seen := map[int]bool{}
	var out []int
	for _, x := range picks {
		n := x%total + 1
		if len(sites) > 0 {
			hits := bySite[sites[x%len(sites)]]
			n = hits[(x/len(sites))%len(hits)]
		}
		if !seen[n] {
			seen[n] = true
			out = append(out, n)
		}
	}
	return out
}

func killSite(ackPath string) string {
	raw, _ := os.ReadFile(ackPath)
	for _, line := range bytes.Split(raw, []byte("\n")) {
		if len(line) > 2 && line[0] == 'K' {
			var n int
			var s string
			fmt.Sscanf(string(line[2:]), "%d %s", &n, &s)
			return s
		}
	}
	return ""
}

func tailBytes(b []byte) string {
	if len(b) > 600 {
		b = b[len(b)-600:]
	}
	return string(b)
}

var wCrash = map[string]int{"txn": 10, "burst": 3, "asyncburst": 3, "wbatch": 4, "flush": 4, "compact": 4, "gc": 1, "churn": 1, "reopen": 1}

func TestC08_CrashRecovery(t *testing.T) {
	all := core.Thorough()
	core.Run(t, "C08", "crash",
		"rapid-generated single-committer workloads (multi-key transactions with values around the threshold; asynchronous bursts - transactions prepared first, then committed with CommitWith back to back, so that requests queue up into multi-request write batches; small WriteBatch objects (Set/Delete, every second one with an explicitly versioned entry added through WriteList: such a batch is written without transaction markers by design, so a crash inside it may leave any subset of its entries and the oracle checks every key for its before- or after-value instead); forced memtable flushes, picker-driven compactions, value log GC, clean re-opens; encryption/compression/table sizes varied) run in a child process that kills itself (SIGKILL, page cache survives) when it reaches the n-th persistence/schedule hook (WAL store, vlog store and rotation, table create/write/sync, MANIFEST append and rewrite, flush and compaction phases, GC phases, Open and Close phases). quick: 6 sampled points per workload; thorough: every point of the dry run, every second one additionally with a crash during recovery. Oracle: Open succeeds; the visible state equals the model after some prefix of the issued commits that includes every acknowledged one (multi-key transactions make partial application match no prefix); level validation passes and *.sst files == tables; a further commit gets a version above everything stored, and a clean re-open agrees. Non-trivial = the kill landed while an operation was in flight (not between operations).",
		func(rt *rapid.T) Prog {
			return Gen(rt, GenCfg{MinOps: 4, MaxOps: 25, Weights: wCrash, AllowEnc: true, NPoints: 6})
		},
		func(p Prog, rec *evid.Rec) (core.Result, error) {
			cs, err := crashCampaign(p, all, all)
			res := core.Result{NonTrivial: cs.midOp > 0}
			rec.Add("crash_points_in_dry_run", cs.points)
			rec.Add("crashed_runs", cs.runs)
			rec.Add("recovery_crashes", cs.recoveries)
			for s, n := range cs.sites {
				if s != "" {
					rec.Add("site:"+s, n)
				}
			}
			if cs.midOp > 0 {
				res.Classes = append(res.Classes, "kill_inside_operation")
			}
			if p.Spec.EncKeyLen > 0 {
				res.Classes = append(res.Classes, "encrypted")
			}
			return res, err
		})
}

var wCrashDrop = map[string]int{"txn": 8, "burst": 3, "flush": 3, "compact": 3, "dropprefix": 5, "dropall": 2, "reopen": 1}

func TestC29_CrashDuringDrop(t *testing.T) {
	all := core.Thorough()
	core.Run(t, "C29", "crash",
		"the C08 crash machinery on workloads rich in DropPrefix and DropAll (between transactions, flushes and compactions): the child process is killed at the n-th hook (quick: 6 stratified points per workload incl. the dropall.*/dropprefix.* phases, thorough: every point). Oracle: Open succeeds; a kill between operations leaves a commit-prefix state; a kill inside a drop leaves every key with its pre-drop value or absent, keys outside a dropped prefix untouched; structure intact; further commits work. Non-trivial = the kill landed inside an operation.",
		func(rt *rapid.T) Prog {
			return Gen(rt, GenCfg{MinOps: 4, MaxOps: 20, Weights: wCrashDrop, AllowEnc: true, NPoints: 6})
		},
		func(p Prog, rec *evid.Rec) (core.Result, error) {
			cs, err := crashCampaign(p, all, false)
			res := core.Result{NonTrivial: cs.midOp > 0}
			rec.Add("crash_points_in_dry_run", cs.points)
			rec.Add("crashed_runs", cs.runs)
			drops := 0
			for s, n := range cs.sites {
				if s != "" {
					rec.Add("site:"+s, n)
				}
				if strings.HasPrefix(s, "dropall") || strings.HasPrefix(s, "dropprefix") {
					drops += n
				}
			}
			if drops > 0 {
				res.Classes = append(res.Classes, "kill_inside_drop")
			}
			if cs.midOp > 0 {
				res.Classes = append(res.Classes, "kill_inside_operation")
			}
			return res, err
		})
}
