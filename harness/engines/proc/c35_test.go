// Package proc holds the multi-process checks: directory locking (C35).
package proc

import (
	"bufio"
	"fmt"
	"io"
	"os"
	"os/exec"
	"path/filepath"
	"strings"
	"testing"
	"time"

	badger "github.com/dgraph-io/badger/v4"
	"pgregory.net/rapid"

	"verifharness/internal/core"
	"verifharness/internal/evid"
)

// ---- C35: directory locking excludes a second writer --------------------------------------------------

type lockOp struct {
	Kind   string `json:"k"`      // open, close
	Slot   int    `json:"slot"`   // handle slot 0..5
	Proc   int    `json:"proc"`   // 0: this process, 1/2: child processes
	RO     bool   `json:"ro"`     // read-only open
	Layout int    `json:"layout"` // 0: Dir=ValueDir=A; 1: Dir=B ValueDir=C; 2: Dir=D(fresh) ValueDir=C (cross); 3: Dir=B ValueDir=E(fresh) (cross)
}

type c35Case struct {
	Ops []lockOp `json:"ops"`
}

func genC35(t *rapid.T) c35Case {
	var c c35Case
	for i, n := 0, rapid.IntRange(4, 40).Draw(t, "nops"); i < n; i++ {
		op := lockOp{Kind: rapid.SampledFrom([]string{"open", "open", "open", "close", "close"}).Draw(t, "kind"),
			Slot: rapid.IntRange(0, 5).Draw(t, "slot"), Proc: rapid.IntRange(0, 2).Draw(t, "proc"),
			RO: rapid.IntRange(0, 2).Draw(t, "ro") == 0, Layout: rapid.SampledFrom([]int{0, 0, 0, 1, 1, 2, 3}).Draw(t, "layout")}
		c.Ops = append(c.Ops, op)
	}
	return c
}

func dirsOf(base string, layout int) (string, string) {
	switch layout {
	case 0:
		return filepath.Join(base, "A"), filepath.Join(base, "A")
	case 1:
		return filepath.Join(base, "B"), filepath.Join(base, "C")
	case 2:
		return filepath.Join(base, "D"), filepath.Join(base, "C")
	default:
		return filepath.Join(base, "B"), filepath.Join(base, "E")
	}
}

func openOpts(dir, vdir string, ro bool) badger.Options {
	o := badger.DefaultOptions(dir).WithValueDir(vdir).WithReadOnly(ro)
	o.Logger = nil
	o.MemTableSize = 1 << 16
	o.ValueThreshold = 64
	o.ValueLogFileSize = 1 << 20
	o.NumCompactors = 0
	o.MetricsEnabled = false
	o.BlockCacheSize, o.IndexCacheSize = 1<<20, 0
	o.CompactL0OnClose = false
	return o
}

// ---- child process ---------------------------------------------------------------------------------------

// TestProcChild is the body of a child process: it executes open/close commands from stdin.
func TestProcChild(t *testing.T) {
	if os.Getenv("VERIF_PROC_CHILD") == "" {
		t.Skip("child process body")
	}
	handles := map[string]*badger.DB{}
	in := bufio.NewScanner(os.Stdin)
	out := bufio.NewWriter(os.Stdout)
	reply := func(format string, a ...any) {
		fmt.Fprintf(out, "REPLY "+format+"\n", a...)
		out.Flush()
	}
	for in.Scan() {
		f := strings.Split(in.Text(), "\t")
		switch f[0] {
		case "open": // open slot ro dir vdir
			db, err := badger.Open(openOpts(f[3], f[4], f[2] == "1"))
			if err != nil {
				reply("err %s", strings.ReplaceAll(err.Error(), "\n", " "))
				continue
			}
			handles[f[1]] = db
			reply("ok")
		case "close":
			if db := handles[f[1]]; db != nil {
				err := db.Close()
				delete(handles, f[1])
				if err != nil {
					reply("err %v", err)
					continue
				}
			}
			reply("ok")
		case "exit":
			for _, db := range handles {
				db.Close()
			}
			reply("ok")
			return
		}
	}
}

type child struct {
	cmd *exec.Cmd
	in  io.WriteCloser
	out *bufio.Scanner
}

func startChild() (*child, error) {
	cmd := exec.Command(os.Args[0], "-test.run", "^TestProcChild$", "-test.timeout", "0")
	cmd.Env = append(os.Environ(), "VERIF_PROC_CHILD=1", "VERIF_REPLAY=", "VERIF_EVID_DIR=", "VERIF_JOURNAL_DIR=", "VERIF_FAIL_DIR=")
	in, err := cmd.StdinPipe()
	if err != nil {
		return nil, err
	}
	outp, err := cmd.StdoutPipe()
	if err != nil {
		return nil, err
	}
	cmd.Stderr = os.Stderr
	if err := cmd.Start(); err != nil {
		return nil, err
	}
	return &child{cmd: cmd, in: in, out: bufio.NewScanner(outp)}, nil
}

func (c *child) call(line string) (string, error) {
	if _, err := io.WriteString(c.in, line+"\n"); err != nil {
		return "", err
	}
	type res struct {
		s   string
		err error
	}
	ch := make(chan res, 1)
	go func() {
		for c.out.Scan() {
			if s := c.out.Text(); strings.HasPrefix(s, "REPLY ") {
				ch <- res{s[6:], nil}
				return
			}
		}
		ch <- res{"", fmt.Errorf("child process ended")}
	}()
	select {
	case r := <-ch:
		return r.s, r.err
	case <-time.After(120 * time.Second):
		return "", fmt.Errorf("child process did not answer %q within 120 s", line)
	}
}

func (c *child) stop() {
	c.call("exit")
	c.in.Close()
	c.cmd.Wait()
}

// ---- parent ------------------------------------------------------------------------------------------------

type handle struct {
	proc   int
	ro     bool
	layout int
	db     *badger.DB // proc 0 only
}

func runC35(c c35Case, rec *evid.Rec) (core.Result, error) {
	var res core.Result
	base := core.Scratch("lock")
	defer os.RemoveAll(base)
	// create the two stores (a read-only open needs an existing, cleanly closed store)
	for _, layout := range []int{0, 1} {
		d, v := dirsOf(base, layout)
		os.MkdirAll(d, 0o755)
		os.MkdirAll(v, 0o755)
		db, err := badger.Open(openOpts(d, v, false))
		if err != nil {
			return res, fmt.Errorf("creating store %d: %v", layout, err)
		}
		if err := db.Update(func(txn *badger.Txn) error { return txn.Set([]byte("k"), []byte("v")) }); err != nil {
			return res, err
		}
		if err := db.Close(); err != nil {
			return res, err
		}
	}
	children := map[int]*child{}
	defer func() {
		for _, ch := range children {
			ch.stop()
		}
	}()
	handles := map[int]*handle{}
	defer func() {
		for _, h := range handles {
			if h.db != nil {
				h.db.Close()
			}
		}
	}()
	// lock model: per directory the set of holders
	uses := func(layout int) []string {
		d, v := dirsOf(base, layout)
		if d == v {
			return []string{d}
		}
		return []string{d, v}
	}
	conflicts := func(layout int, ro bool) (bool, string) {
		for _, dir := range uses(layout) {
			for slot, h := range handles {
				for _, hd := range uses(h.layout) {
					if hd == dir && (!ro || !h.ro) {
						return true, fmt.Sprintf("%s is held by slot %d (process %d, read-only=%v)", filepath.Base(dir), slot, h.proc, h.ro)
					}
				}
			}
		}
		return false, ""
	}
	refused, granted, crossProc, coexist := 0, 0, 0, 0
	for i, op := range c.Ops {
		switch op.Kind {
		case "close":
			h := handles[op.Slot]
			if h == nil {
				continue
			}
			var err error
			if h.proc == 0 {
				err = h.db.Close()
			} else {
				var r string
				r, err = children[h.proc].call(fmt.Sprintf("close\t%d", op.Slot))
				if err == nil && r != "ok" {
					err = fmt.Errorf("%s", r)
				}
			}
			delete(handles, op.Slot)
			if err != nil {
				return res, fmt.Errorf("op %d: Close of slot %d: %v", i, op.Slot, err)
			}
		case "open":
			if handles[op.Slot] != nil {
				continue
			}
			mustFail, why := conflicts(op.Layout, op.RO)
			if op.Layout >= 2 && !mustFail {
				continue // a cross-layout open that would succeed would mix two stores: only attempted when it must be refused
			}
			d, v := dirsOf(base, op.Layout)
			os.MkdirAll(d, 0o755)
			os.MkdirAll(v, 0o755)
			var err error
			var db *badger.DB
			if op.Proc == 0 {
				db, err = badger.Open(openOpts(d, v, op.RO))
			} else {
				ch := children[op.Proc]
				if ch == nil {
					if ch, err = startChild(); err != nil {
						return res, fmt.Errorf("starting child: %v", err)
					}
					children[op.Proc] = ch
				}
				ro := "0"
				if op.RO {
					ro = "1"
				}
				var r string
				r, err = ch.call(fmt.Sprintf("open\t%d\t%s\t%s\t%s", op.Slot, ro, d, v))
				if err == nil && r != "ok" {
					err = fmt.Errorf("%s", strings.TrimPrefix(r, "err "))
				} else if err != nil {
					return res, fmt.Errorf("op %d: %v", i, err)
				}
			}
			desc := fmt.Sprintf("op %d: Open(Dir=%s, ValueDir=%s, read-only=%v) in process %d", i, filepath.Base(d), filepath.Base(v), op.RO, op.Proc)
			if mustFail {
				if err == nil {
					if db != nil {
						db.Close()
					}
					return res, fmt.Errorf("%s succeeded although %s", desc, why)
				}
				if !strings.Contains(err.Error(), "Cannot acquire directory lock") && !strings.Contains(err.Error(), "Another process is using this Badger database") {
					return res, fmt.Errorf("%s was refused with an unrelated error: %v", desc, err)
				}
				refused++
				for _, h := range handles {
					if h.proc != op.Proc {
						crossProc++
						break
					}
				}
				continue
			}
			if err != nil {
				return res, fmt.Errorf("%s failed although no conflicting handle is open: %v", desc, err)
			}
			if op.RO {
				for _, h := range handles {
					if h.ro && h.layout == op.Layout {
						coexist++
					}
				}
			}
			handles[op.Slot] = &handle{proc: op.Proc, ro: op.RO, layout: op.Layout, db: db}
			granted++
		}
	}
	rec.Add("opens_refused", refused)
	rec.Add("opens_granted", granted)
	cls := func(b bool, n string) {
		if b {
			res.Classes = append(res.Classes, n)
		}
	}
	cls(crossProc > 0, "refused_across_processes")
	cls(coexist > 0, "readonly_opens_coexist")
	cls(len(children) > 0, "child_process")
	res.NonTrivial = refused > 0 && granted >= 2
	return res, nil
}

func TestC35_DirLock(t *testing.T) {
	core.Run(t, "C35", "dirlock",
		"rapid-generated sequences of Open (read-write / read-only) and Close over six handle slots spread over this process and two child processes (same test binary, commands over a pipe), on two stores: one with Dir = ValueDir and one with separate Dir and ValueDir, plus cross opens that share only the ValueDir or only the Dir with an open store (attempted only when they must be refused). Oracle = lock model per directory: an open must fail (with the directory-lock error) iff a conflicting handle is open on one of its directories (anything vs read-write, read-write vs read-only), in this or another process; otherwise it must succeed, read-only handles coexist, and Close releases the lock. Non-trivial = >=1 refused and >=2 granted opens.",
		genC35, runC35)
}
