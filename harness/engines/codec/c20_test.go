package codec

import (
	"bytes"
	"fmt"
	"math"
	"testing"

	badger "github.com/dgraph-io/badger/v4"
	"github.com/dgraph-io/badger/v4/y"
	"pgregory.net/rapid"

	"verifharness/internal/core"
	"verifharness/internal/evid"
)

// ---- generators shared by the codec engine ----------------------------------------------------

var edgeU64 = []uint64{0, 1, 2, 127, 128, 255, 256, 16383, 16384, 1<<21 - 1, 1 << 21, 1<<28 - 1, 1 << 28,
	1<<32 - 1, 1 << 32, 1<<35 - 1, 1 << 35, 1<<42 - 1, 1 << 42, 1<<49 - 1, 1 << 49, 1<<56 - 1, 1 << 56,
	1<<63 - 1, 1 << 63, math.MaxUint64 - 1, math.MaxUint64}

func genU64() *rapid.Generator[uint64] {
	return rapid.OneOf(rapid.SampledFrom(edgeU64), rapid.Uint64(), rapid.Uint64Range(0, 300))
}

var keyAlphabet = []byte{0x00, 0x01, 'a', 'b', 0xFE, 0xFF}

// genUserKey draws non-empty keys: small-alphabet keys (collisions, prefix relations, keys that
// end in bytes which look like a timestamp suffix) and arbitrary byte strings.
func genUserKey() *rapid.Generator[[]byte] {
	small := rapid.SliceOfN(rapid.SampledFrom(keyAlphabet), 1, 6)
	anyb := rapid.SliceOfN(rapid.Byte(), 1, 40)
	tsLike := rapid.Custom(func(t *rapid.T) []byte {
		k := rapid.SliceOfN(rapid.SampledFrom(keyAlphabet), 1, 3).Draw(t, "k")
		ts := genU64().Draw(t, "ts")
		return y.KeyWithTs(k, ts) // a user key whose tail is itself an encoded timestamp
	})
	return rapid.OneOf(small, small, anyb, tsLike)
}

// ---- C20 ---------------------------------------------------------------------------------------

type c20Key struct {
	K  []byte
	Ts uint64
}
type c20Case struct {
	A, B   c20Key
	H      badger.VerifHeader
	VS     y.ValueStruct
	Fid    uint32
	Len    uint32
	Off    uint32
	Suffix []byte
}

func sign(x int) int {
	switch {
	case x < 0:
		return -1
	case x > 0:
		return 1
	}
	return 0
}

func genC20(t *rapid.T) c20Case {
	var c c20Case
	c.A = c20Key{genUserKey().Draw(t, "ka"), genU64().Draw(t, "tsa")}
	switch rapid.IntRange(0, 3).Draw(t, "rel") {
	case 0: // same key, other version
		c.B = c20Key{append([]byte{}, c.A.K...), genU64().Draw(t, "tsb")}
	case 1: // B extends A (prefix relation)
		ext := rapid.SliceOfN(rapid.SampledFrom(keyAlphabet), 1, 9).Draw(t, "ext")
		c.B = c20Key{append(append([]byte{}, c.A.K...), ext...), genU64().Draw(t, "tsb")}
	default:
		c.B = c20Key{genUserKey().Draw(t, "kb"), genU64().Draw(t, "tsb")}
	}
	u32 := func(name string) uint32 {
		return uint32(rapid.OneOf(rapid.SampledFrom([]uint64{0, 1, 127, 128, 16383, 16384, 65535, 65536, 1<<32 - 1}),
			rapid.Uint64Range(0, 1<<32-1)).Draw(t, name))
	}
	c.H = badger.VerifHeader{Klen: u32("klen"), Vlen: u32("vlen"), ExpiresAt: genU64().Draw(t, "exp"),
		Meta: rapid.Byte().Draw(t, "meta"), UserMeta: rapid.Byte().Draw(t, "umeta")}
	c.VS = y.ValueStruct{Meta: rapid.Byte().Draw(t, "vmeta"), UserMeta: rapid.Byte().Draw(t, "vumeta"),
		ExpiresAt: genU64().Draw(t, "vexp"), Value: rapid.SliceOfN(rapid.Byte(), 0, 64).Draw(t, "val")}
	c.Fid, c.Len, c.Off = u32("fid"), u32("len"), u32("off")
	c.Suffix = rapid.SliceOfN(rapid.Byte(), 0, 8).Draw(t, "suffix")
	return c
}

func runC20(c c20Case, rec *evid.Rec) (core.Result, error) {
	var res core.Result
	// 1. key/version round trip.
	for _, kv := range []c20Key{c.A, c.B} {
		enc := y.KeyWithTs(kv.K, kv.Ts)
		if len(enc) != len(kv.K)+8 {
			return res, fmt.Errorf("KeyWithTs(%x,%d) has length %d", kv.K, kv.Ts, len(enc))
		}
		if got := y.ParseKey(enc); !bytes.Equal(got, kv.K) {
			return res, fmt.Errorf("ParseKey(KeyWithTs(%x,%d)) = %x", kv.K, kv.Ts, got)
		}
		if got := y.ParseTs(enc); got != kv.Ts {
			return res, fmt.Errorf("ParseTs(KeyWithTs(%x,%d)) = %d", kv.K, kv.Ts, got)
		}
	}
	// 2. ordering: user key ascending, then version descending.
	ea, eb := y.KeyWithTs(c.A.K, c.A.Ts), y.KeyWithTs(c.B.K, c.B.Ts)
	want := bytes.Compare(c.A.K, c.B.K)
	if want == 0 {
		switch {
		case c.A.Ts > c.B.Ts:
			want = -1
		case c.A.Ts < c.B.Ts:
			want = 1
		}
	}
	if got := sign(y.CompareKeys(ea, eb)); got != want {
		return res, fmt.Errorf("CompareKeys(%x@%d, %x@%d) = %d, want %d", c.A.K, c.A.Ts, c.B.K, c.B.Ts, got, want)
	}
	if got := sign(y.CompareKeys(eb, ea)); got != -want {
		return res, fmt.Errorf("CompareKeys not antisymmetric for %x@%d, %x@%d", c.A.K, c.A.Ts, c.B.K, c.B.Ts)
	}
	if got, w := y.SameKey(ea, eb), bytes.Equal(c.A.K, c.B.K); got != w {
		return res, fmt.Errorf("SameKey(%x@%d, %x@%d) = %v, want %v", c.A.K, c.A.Ts, c.B.K, c.B.Ts, got, w)
	}
	// 3. header round trip, both decoders, with trailing bytes present.
	henc := badger.VerifHeaderEncode(c.H)
	if len(henc) > badger.VerifMaxHeaderSize {
		return res, fmt.Errorf("header %+v encodes to %d bytes > maxHeaderSize", c.H, len(henc))
	}
	buf := append(append([]byte{}, henc...), c.Suffix...)
	buf = append(buf, make([]byte, 12)...)
	h1, n1 := badger.VerifHeaderDecode(buf)
	if h1 != c.H || n1 != len(henc) {
		return res, fmt.Errorf("header.Decode(Encode(%+v)) = %+v consumed %d want %d", c.H, h1, n1, len(henc))
	}
	h2, n2, err := badger.VerifHeaderDecodeFrom(buf)
	if err != nil || h2 != c.H || n2 != len(henc) {
		return res, fmt.Errorf("header.DecodeFrom(Encode(%+v)) = %+v consumed %d err %v want %d", c.H, h2, n2, err, len(henc))
	}
	// 4. ValueStruct round trip incl. EncodedSize.
	vs := c.VS
	sz := vs.EncodedSize()
	vb := make([]byte, sz)
	if n := vs.Encode(vb); n != sz {
		return res, fmt.Errorf("ValueStruct.Encode wrote %d, EncodedSize %d for %+v", n, sz, vs)
	}
	var bb bytes.Buffer
	vs.EncodeTo(&bb)
	if !bytes.Equal(bb.Bytes(), vb) {
		return res, fmt.Errorf("EncodeTo != Encode for %+v", vs)
	}
	var back y.ValueStruct
	back.Decode(vb)
	if back.Meta != vs.Meta || back.UserMeta != vs.UserMeta || back.ExpiresAt != vs.ExpiresAt || !bytes.Equal(back.Value, vs.Value) {
		return res, fmt.Errorf("ValueStruct round trip: %+v -> %+v", vs, back)
	}
	// 5. value pointer round trip.
	pe := badger.VerifVptrEncode(c.Fid, c.Len, c.Off)
	f, l, o := badger.VerifVptrDecode(append(pe, c.Suffix...))
	if f != c.Fid || l != c.Len || o != c.Off {
		return res, fmt.Errorf("valuePointer round trip (%d,%d,%d) -> (%d,%d,%d)", c.Fid, c.Len, c.Off, f, l, o)
	}

	prefixRel := !bytes.Equal(c.A.K, c.B.K) && (bytes.HasPrefix(c.A.K, c.B.K) || bytes.HasPrefix(c.B.K, c.A.K))
	sameKeyDiffTs := bytes.Equal(c.A.K, c.B.K) && c.A.Ts != c.B.Ts
	res.NonTrivial = prefixRel || sameKeyDiffTs
	if prefixRel {
		res.Classes = append(res.Classes, "prefix_related_keys")
	}
	if sameKeyDiffTs {
		res.Classes = append(res.Classes, "same_key_other_version")
	}
	if len(henc) >= 12 {
		res.Classes = append(res.Classes, "long_varint_header")
	}
	return res, nil
}

func TestC20_Encodings(t *testing.T) {
	core.Run(t, "C20", "encodings",
		"rapid-generated (keyA@tsA, keyB@tsB, header, ValueStruct, valuePointer) tuples; keys over a 6-byte alphabet, arbitrary bytes and keys ending in a timestamp-like suffix; versions/fields at varint and 2^k boundaries. Non-trivial = the two keys are in prefix relation, or are equal with different versions (the cases where ordering is decided by the key/timestamp split).",
		genC20, runC20)
}
