package codec

import (
	"bytes"
	"fmt"
	"os"
	"path/filepath"
	"strconv"
	"testing"
	"time"

	badger "github.com/dgraph-io/badger/v4"
	"github.com/dgraph-io/badger/v4/y"
	"pgregory.net/rapid"

	"verifharness/internal/core"
	"verifharness/internal/evid"
)

// ---- C16: log records ------------------------------------------------------------------------------

type logRec struct {
	K    []byte // user key
	Ts   uint64
	V    []byte
	Meta byte // without txn bits
	UM   byte
	Exp  uint64
}

// logGroup is one unit of the log: a non-transactional record (Txn == false, one record) or a
// transaction (records carry bitTxn and the same commit ts; Fin says whether the end marker is written).
type logGroup struct {
	Txn      bool
	CommitTs uint64
	Recs     []logRec
	Fin      bool
	BadFin   bool // write an end marker that carries a different timestamp
}

type c16Case struct {
	EncKeyLen int
	Groups    []logGroup
	// corruption: byte FlipPos (mod record length) of record FlipRec (mod #records) is xor-ed with FlipMask
	FlipRec  int
	FlipPos  int
	FlipMask byte
	Reopen   bool
}

var txnKey = []byte("!badger!txn")

func genLogRec(t *rapid.T, ts uint64) logRec {
	var k []byte
	if rapid.IntRange(0, 299).Draw(t, "longkey") == 0 {
		k = bytes.Repeat([]byte{'K'}, rapid.SampledFrom([]int{127 - 8, 128 - 8, 16383 - 8, 16384 - 8, 65000}).Draw(t, "klen"))
	} else {
		k = rapid.SliceOfN(rapid.SampledFrom(keyAlphabet), 1, 12).Draw(t, "k")
	}
	vl := rapid.OneOf(rapid.IntRange(0, 20), rapid.SampledFrom([]int{0, 1, 127, 128, 129, 4000, 16383, 16384, 70000})).Draw(t, "vlen")
	v := make([]byte, vl)
	fill := rapid.Byte().Draw(t, "fill")
	for i := range v {
		v[i] = fill ^ byte(i*13)
	}
	meta := byte(0)
	for _, b := range []byte{badger.VerifBitDelete, badger.VerifBitValuePointer, badger.VerifBitDiscardEarlierVersions, badger.VerifBitMergeEntry} {
		if rapid.IntRange(0, 3).Draw(t, "metabit") == 0 {
			meta |= b
		}
	}
	return logRec{K: k, Ts: ts, V: v, Meta: meta, UM: rapid.Byte().Draw(t, "um"),
		Exp: rapid.OneOf(rapid.Just(uint64(0)), genU64()).Draw(t, "exp")}
}

func genC16(t *rapid.T) c16Case {
	var c c16Case
	c.EncKeyLen = rapid.SampledFrom([]int{0, 0, 16, 24, 32}).Draw(t, "enc")
	ng := rapid.IntRange(1, 8).Draw(t, "ngroups")
	commit := uint64(rapid.IntRange(1, 1000).Draw(t, "commit0"))
	for i := 0; i < ng; i++ {
		var g logGroup
		g.Txn = rapid.Bool().Draw(t, "txn")
		if g.Txn {
			commit += uint64(rapid.IntRange(1, 3).Draw(t, "dc"))
			g.CommitTs = commit
			n := rapid.IntRange(1, 4).Draw(t, "nrecs")
			for j := 0; j < n; j++ {
				g.Recs = append(g.Recs, genLogRec(t, commit))
			}
			g.Fin = true
			// the newest transaction often lacks (or has a mismatching) end marker; rarely one in
			// the middle does (delivery must then stop right there, whatever follows)
			if i == ng-1 || rapid.IntRange(0, 7).Draw(t, "midtorn") == 0 {
				switch rapid.IntRange(0, 3).Draw(t, "tail") {
				case 0:
					g.Fin = false
				case 1:
					g.BadFin = true
				}
			}
		} else {
			g.Recs = []logRec{genLogRec(t, genU64().Draw(t, "ts"))}
		}
		c.Groups = append(c.Groups, g)
	}
	c.FlipRec = rapid.IntRange(0, 1<<20).Draw(t, "fliprec")
	c.FlipPos = rapid.IntRange(0, 1<<20).Draw(t, "flippos")
	c.FlipMask = byte(rapid.IntRange(1, 255).Draw(t, "flipmask"))
	c.Reopen = rapid.Bool().Draw(t, "reopen")
	return c
}

type writtenRec struct {
	group  int
	rec    logRec
	meta   byte // as written (with txn bits)
	key    []byte
	off    uint32
	length uint32
	fin    bool
}

func runC16(c c16Case, rec *evid.Rec) (core.Result, error) {
	var res core.Result
	dir := core.Scratch("c16")
	defer os.RemoveAll(dir)
	var encKey []byte
	if c.EncKeyLen > 0 {
		encKey = encKeyMaterial[:c.EncKeyLen]
	}
	reg, err := badger.OpenKeyRegistry(badger.KeyRegistryOptions{InMemory: true, EncryptionKey: encKey, EncryptionKeyRotationDuration: 10 * 24 * time.Hour})
	if err != nil {
		return res, fmt.Errorf("registry: %v", err)
	}
	size := int64(1 << 14)
	for _, g := range c.Groups {
		for _, r := range g.Recs {
			size += int64(len(r.K) + len(r.V) + 64)
		}
		size += 64
	}
	opt := badger.DefaultOptions("")
	path := filepath.Join(dir, "000001.vlog")
	lg, err := badger.VerifLogOpen(path, 1, reg, size, true, opt)
	if err != nil {
		return res, fmt.Errorf("creating log: %v", err)
	}
	defer func() { lg.Close() }()

	// ---- write
	var all []writtenRec
	multiTxn, boundary := false, false
	for gi, g := range c.Groups {
		if g.Txn && len(g.Recs) >= 2 {
			multiTxn = true
		}
		for _, r := range g.Recs {
			meta := r.Meta
			if g.Txn {
				meta |= badger.VerifBitTxn
			}
			k := y.KeyWithTs(r.K, r.Ts)
			off, ln, err := lg.Write(k, r.V, meta, r.UM, r.Exp)
			if err != nil {
				return res, fmt.Errorf("write: %v", err)
			}
			all = append(all, writtenRec{group: gi, rec: r, meta: meta, key: k, off: off, length: ln})
			for _, b := range []int{127, 128, 16383, 16384} {
				if len(k) == b || len(r.V) == b {
					boundary = true
				}
			}
			if r.Exp >= 1<<56 {
				boundary = true
			}
		}
		if g.Txn && (g.Fin || g.BadFin) {
			ts := g.CommitTs
			if g.BadFin {
				ts++
			}
			k := y.KeyWithTs(txnKey, g.CommitTs)
			off, ln, err := lg.Write(k, []byte(strconv.FormatUint(ts, 10)), badger.VerifBitFinTxn, 0, 0)
			if err != nil {
				return res, fmt.Errorf("write fin: %v", err)
			}
			all = append(all, writtenRec{group: gi, key: k, off: off, length: ln, fin: true, meta: badger.VerifBitFinTxn})
		}
	}
	endWritten := lg.WriteAt()

	// expected delivery for a log whose groups [0, upto) are intact
	complete := func(g logGroup) bool { return !g.Txn || (g.Fin && !g.BadFin) }
	expect := func(upto int) ([]writtenRec, uint32) {
		var out []writtenRec
		end := uint32(badger.VerifVlogHeaderSize)
		for gi := 0; gi < upto; gi++ {
			if !complete(c.Groups[gi]) {
				break
			}
			for _, w := range all {
				if w.group == gi {
					if !w.fin {
						out = append(out, w)
					}
					end = w.off + w.length
				}
			}
		}
		return out, end
	}

	check := func(label string, l *badger.VerifLog, upto int, lenient bool) error {
		want, wantEnd := expect(upto)
		var got []badger.VerifLogEntry
		end, err := l.Iterate(0, func(e badger.VerifLogEntry) error { got = append(got, e); return nil })
		if err != nil && lenient {
			// A damaged header/length/CRC byte may make the reader give up with an error; the
			// statement only requires that nothing altered is returned.
			want = want[:min(len(want), len(got))]
			wantEnd = end
		} else if err != nil {
			return fmt.Errorf("%s: iterate error %v", label, err)
		}
		if len(got) != len(want) {
			return fmt.Errorf("%s: iterate delivered %d records, want %d (groups intact: %d)", label, len(got), len(want), upto)
		}
		for i, w := range want {
			g := got[i]
			if !bytes.Equal(g.Key, w.key) || !bytes.Equal(g.Value, w.rec.V) || g.Meta != w.meta || g.UserMeta != w.rec.UM || g.ExpiresAt != w.rec.Exp {
				return fmt.Errorf("%s: record %d decoded as key %x(len %d) vlen %d meta %#x um %d exp %d; written key %x(len %d) vlen %d meta %#x um %d exp %d",
					label, i, trunc(g.Key), len(g.Key), len(g.Value), g.Meta, g.UserMeta, g.ExpiresAt, trunc(w.key), len(w.key), len(w.rec.V), w.meta, w.rec.UM, w.rec.Exp)
			}
			if g.Fid != 1 || g.Offset != w.off || g.Len != w.length {
				return fmt.Errorf("%s: record %d pointer (fid %d off %d len %d), written at off %d len %d", label, i, g.Fid, g.Offset, g.Len, w.off, w.length)
			}
			rd, err := l.ReadAt(g.Offset, g.Len)
			if err != nil {
				return fmt.Errorf("%s: ReadAt(%d,%d): %v", label, g.Offset, g.Len, err)
			}
			if !bytes.Equal(rd.Key, w.key) || !bytes.Equal(rd.Value, w.rec.V) {
				return fmt.Errorf("%s: pointer (off %d len %d) resolves to key %x vlen %d, want key %x vlen %d", label, g.Offset, g.Len, trunc(rd.Key), len(rd.Value), trunc(w.key), len(w.rec.V))
			}
		}
		if end != wantEnd {
			return fmt.Errorf("%s: valid end offset %d, want %d", label, end, wantEnd)
		}
		return nil
	}

	if err := check("intact log", lg, len(c.Groups), false); err != nil {
		return res, err
	}
	// every record also decodes individually (no transaction grouping)
	single := lg.SafeReadAll()
	if len(single) != len(all) {
		return res, fmt.Errorf("record-by-record read returned %d records, wrote %d", len(single), len(all))
	}
	for i, w := range all {
		if !bytes.Equal(single[i].Key, w.key) || single[i].Offset != w.off || single[i].Len != w.length || single[i].Meta != w.meta {
			return res, fmt.Errorf("record-by-record read: record %d differs from what was written", i)
		}
	}
	if c.Reopen {
		if err := lg.Close(); err != nil {
			return res, fmt.Errorf("close: %v", err)
		}
		if c.FlipRec%2 == 0 {
			// what rotation (doneWriting) leaves behind: the file ends exactly after its last record
			if err := os.Truncate(path, int64(endWritten)); err != nil {
				return res, err
			}
			res.Classes = append(res.Classes, "file_ends_after_last_record")
		}
		lg, err = badger.VerifLogOpen(path, 1, reg, size, false, opt)
		if err != nil {
			return res, fmt.Errorf("reopen: %v", err)
		}
		if err := check("reopened log", lg, len(c.Groups), false); err != nil {
			return res, err
		}
	}

	// ---- single-byte corruption inside record FlipRec: exactly the groups before it survive
	w := all[c.FlipRec%len(all)]
	pos := int(w.off) + c.FlipPos%int(w.length)
	data := lg.Data()
	orig := data[pos]
	// key/value bytes start after the varint header; the last 4 bytes are the CRC
	_, hlen := badger.VerifHeaderDecode(data[w.off:])
	inKV := pos >= int(w.off)+hlen && pos < int(w.off+w.length)-4
	data[pos] = orig ^ c.FlipMask
	if h2, _, herr := badger.VerifHeaderDecodeFrom(data[w.off : w.off+w.length]); herr == nil && !inKV && uint64(h2.Klen)+uint64(h2.Vlen) > 1<<21 {
		// a damaged length field that asks the reader to allocate gigabytes: not explored (harness memory)
		data[pos] = orig
		res.Classes = append(res.Classes, "flip_skipped_huge_length")
		return res, nil
	}
	err = check(fmt.Sprintf("log with byte %d (record at %d, len %d, kv bytes: %v) xor %#x", pos, w.off, w.length, inKV, c.FlipMask), lg, w.group, !inKV)
	data[pos] = orig
	if err != nil {
		return res, err
	}
	if err := check("restored log", lg, len(c.Groups), false); err != nil {
		return res, err
	}
	_ = endWritten

	res.NonTrivial = multiTxn && boundary
	if multiTxn {
		res.Classes = append(res.Classes, "multi_entry_txn")
	}
	if boundary {
		res.Classes = append(res.Classes, "boundary_field")
	}
	if c.EncKeyLen > 0 {
		res.Classes = append(res.Classes, "encrypted")
	}
	if inKV {
		res.Classes = append(res.Classes, "flip_in_key_or_value")
	} else {
		res.Classes = append(res.Classes, "flip_in_header_or_crc")
	}
	last := c.Groups[len(c.Groups)-1]
	if last.Txn && !complete(last) {
		res.Classes = append(res.Classes, "incomplete_tail_txn")
	}
	for _, g := range c.Groups[:len(c.Groups)-1] {
		if !complete(g) {
			res.Classes = append(res.Classes, "incomplete_txn_in_the_middle")
			break
		}
	}
	return res, nil
}

func trunc(b []byte) []byte {
	if len(b) > 20 {
		return b[:20]
	}
	return b
}

func TestC16_LogRecords(t *testing.T) {
	core.Run(t, "C16", "records",
		"rapid-generated logs of 1-8 groups (non-transactional records and 1-4 entry transactions with end markers; the newest transaction may lack its marker or carry a mismatching one), key lengths incl. varint boundaries (127/128/16383/16384) and 65000, value sizes 0..70000, all meta-bit combinations, expiry up to 2^64-1, AES key 0/16/24/32 bytes, optional close+reopen (half of them with the file cut exactly after the last record, as rotation leaves it); written through logFile.writeEntry, read through logFile.iterate / read+decodeEntry / safeRead.Entry. Oracle: delivered records == written records of complete groups in order with pointers equal to the write offsets and resolving to the same key/value; valid end offset == end of the last complete group; then one byte of one record (header, key, value or CRC) is xor-ed: exactly the groups before it are delivered. Non-trivial = log with a multi-entry transaction and a boundary-valued field.",
		genC16, runC16)
}

// FuzzC16LogIterate: arbitrary bytes after a valid 20-byte header never make iterate panic, and
// the reported valid end offset stays inside the file and is stable.
func FuzzC16LogIterate(f *testing.F) {
	f.Add([]byte{})
	f.Add([]byte{0x40, 0, 9, 1, 0, 'a', 0, 0, 0, 0, 0, 0, 0, 1, 'v', 1, 2, 3, 4})
	f.Add(bytes.Repeat([]byte{0xff}, 64))
	f.Add([]byte{0, 0, 0xff, 0xff, 0xff, 0xff, 0x0f, 0xff, 0xff, 0xff, 0xff, 0x0f, 1})
	f.Fuzz(func(t *testing.T, body []byte) {
		if len(body) > 1<<16 {
			return
		}
		dir := core.Scratch("fz16")
		defer os.RemoveAll(dir)
		reg, _ := badger.OpenKeyRegistry(badger.KeyRegistryOptions{InMemory: true})
		opt := badger.DefaultOptions("")
		lg, err := badger.VerifLogOpen(filepath.Join(dir, "000001.vlog"), 1, reg, int64(len(body)+64), true, opt)
		if err != nil {
			t.Fatalf("create: %v", err)
		}
		defer lg.Close()
		copy(lg.Data()[badger.VerifVlogHeaderSize:], body)
		var n1, n2 int
		end1, err1 := lg.Iterate(0, func(e badger.VerifLogEntry) error {
			n1++
			if int(e.Offset)+int(e.Len) > len(lg.Data()) {
				t.Fatalf("record beyond the file: off %d len %d size %d", e.Offset, e.Len, len(lg.Data()))
			}
			return nil
		})
		end2, err2 := lg.Iterate(0, func(e badger.VerifLogEntry) error { n2++; return nil })
		if (err1 == nil) != (err2 == nil) || end1 != end2 || n1 != n2 {
			t.Fatalf("iterate not deterministic: (%d,%v,%d) vs (%d,%v,%d)", end1, err1, n1, end2, err2, n2)
		}
		if err1 == nil && (int(end1) > len(lg.Data()) || end1 < badger.VerifVlogHeaderSize) {
			t.Fatalf("end offset %d outside [%d,%d]", end1, badger.VerifVlogHeaderSize, len(lg.Data()))
		}
	})
}
