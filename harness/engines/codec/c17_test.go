package codec

import (
	"bytes"
	"fmt"
	"os"
	"path/filepath"
	"testing"

	badger "github.com/dgraph-io/badger/v4"
	"github.com/dgraph-io/badger/v4/pb"
	"pgregory.net/rapid"

	"verifharness/internal/core"
	"verifharness/internal/evid"
)

// ---- C17: MANIFEST ----------------------------------------------------------------------------------

type mChange struct {
	Kind  int // 0 create fresh id, 1 delete a live id, 2 delete an unknown id
	Pick  int // which live id (mod)
	Level int
	KeyID uint64
	Comp  int
}

type c17Case struct {
	Threshold int
	ExtMagic  uint16
	Sets      [][]mChange
	Reopens   []bool // reopen the manifest file after set i
	FlipSet   int
	FlipPos   int
	FlipMask  byte
}

func genC17(t *rapid.T) c17Case {
	var c c17Case
	c.Threshold = rapid.IntRange(0, 12).Draw(t, "threshold")
	c.ExtMagic = rapid.SampledFrom([]uint16{0, 0, 1, 7, 65535}).Draw(t, "extmagic")
	n := rapid.IntRange(1, 25).Draw(t, "nsets")
	for i := 0; i < n; i++ {
		m := rapid.IntRange(1, 5).Draw(t, "nchanges")
		var set []mChange
		for j := 0; j < m; j++ {
			set = append(set, mChange{
				Kind:  rapid.SampledFrom([]int{0, 0, 1, 1, 1, 2}).Draw(t, "kind"),
				Pick:  rapid.IntRange(0, 1000).Draw(t, "pick"),
				Level: rapid.IntRange(0, 6).Draw(t, "level"),
				KeyID: uint64(rapid.IntRange(0, 3).Draw(t, "keyid")),
				Comp:  rapid.IntRange(0, 2).Draw(t, "comp"),
			})
		}
		c.Sets = append(c.Sets, set)
		c.Reopens = append(c.Reopens, rapid.IntRange(0, 7).Draw(t, "reopen") == 0)
	}
	c.FlipSet = rapid.IntRange(0, 1000).Draw(t, "flipset")
	c.FlipPos = rapid.IntRange(0, 1<<20).Draw(t, "flippos")
	c.FlipMask = byte(rapid.IntRange(1, 255).Draw(t, "flipmask"))
	return c
}

type refTable struct {
	Level uint8
	KeyID uint64
	Comp  int
}

func copyRef(m map[uint64]refTable) map[uint64]refTable {
	o := make(map[uint64]refTable, len(m))
	for k, v := range m {
		o[k] = v
	}
	return o
}

func manifestEquals(m badger.Manifest, ref map[uint64]refTable) error {
	if len(m.Tables) != len(ref) {
		return fmt.Errorf("manifest has %d tables, reference %d (%v vs %v)", len(m.Tables), len(ref), m.Tables, ref)
	}
	for id, r := range ref {
		tm, ok := m.Tables[id]
		if !ok {
			return fmt.Errorf("table %d missing from manifest (reference: level %d)", id, r.Level)
		}
		if tm.Level != r.Level || tm.KeyID != r.KeyID || int(tm.Compression) != r.Comp {
			return fmt.Errorf("table %d = %+v, reference %+v", id, tm, r)
		}
	}
	lv := badger.VerifManifestLevelTables(m)
	cnt := 0
	for l, set := range lv {
		for id := range set {
			r, ok := ref[id]
			if !ok || int(r.Level) != l {
				return fmt.Errorf("level %d lists table %d, reference says %+v (present %v)", l, id, r, ok)
			}
			cnt++
		}
	}
	if cnt != len(ref) {
		return fmt.Errorf("level sets hold %d tables, reference %d", cnt, len(ref))
	}
	return nil
}

func replayBytes(dir string, content []byte, opt badger.Options) (badger.Manifest, int64, error) {
	p := filepath.Join(dir, "replay-MANIFEST")
	if err := os.WriteFile(p, content, 0o644); err != nil {
		return badger.Manifest{}, 0, err
	}
	fp, err := os.Open(p)
	if err != nil {
		return badger.Manifest{}, 0, err
	}
	defer fp.Close()
	return badger.ReplayManifestFile(fp, opt.ExternalMagicVersion, opt)
}

type mState struct {
	file []byte
	ref  map[uint64]refTable
}

func runC17(c c17Case, rec *evid.Rec) (core.Result, error) {
	var res core.Result
	dir := core.Scratch("c17")
	defer os.RemoveAll(dir)
	opt := badger.DefaultOptions(dir).WithLogger(nil).WithExternalMagic(c.ExtMagic)
	mpath := filepath.Join(dir, "MANIFEST")
	mf, m0, err := badger.VerifManifestOpen(dir, c.Threshold, opt)
	if err != nil {
		return res, fmt.Errorf("open: %v", err)
	}
	defer func() { mf.Close() }()
	ref := map[uint64]refTable{}
	if err := manifestEquals(m0, ref); err != nil {
		return res, fmt.Errorf("fresh manifest: %v", err)
	}
	readFile := func() []byte {
		b, err := os.ReadFile(mpath)
		if err != nil {
			panic(err)
		}
		return b
	}
	// states of the current epoch (since the last rewrite): file prefix lengths and reference maps
	epoch := []mState{{file: readFile(), ref: copyRef(ref)}}
	nextID := uint64(1)
	var live []uint64
	rewrites, deletes, unknownDeletes := 0, 0, 0

	for i, set := range c.Sets {
		var changes []*pb.ManifestChange
		for _, ch := range set {
			kind := ch.Kind
			if kind == 1 && len(live) == 0 {
				kind = 0
			}
			switch kind {
			case 0:
				id := nextID
				nextID++
				changes = append(changes, &pb.ManifestChange{Id: id, Op: pb.ManifestChange_CREATE, Level: uint32(ch.Level),
					KeyId: ch.KeyID, EncryptionAlgo: pb.EncryptionAlgo_aes, Compression: uint32(ch.Comp)})
				ref[id] = refTable{Level: uint8(ch.Level), KeyID: ch.KeyID, Comp: ch.Comp}
				live = append(live, id)
			case 1:
				j := ch.Pick % len(live)
				id := live[j]
				live = append(live[:j], live[j+1:]...)
				changes = append(changes, &pb.ManifestChange{Id: id, Op: pb.ManifestChange_DELETE})
				delete(ref, id)
				deletes++
			case 2:
				changes = append(changes, &pb.ManifestChange{Id: 1_000_000 + uint64(ch.Pick), Op: pb.ManifestChange_DELETE})
				unknownDeletes++
			}
		}
		if err := mf.AddChanges(changes, opt); err != nil {
			return res, fmt.Errorf("set %d: addChanges: %v", i, err)
		}
		if err := manifestEquals(mf.Snapshot(opt), ref); err != nil {
			return res, fmt.Errorf("after set %d, in-memory manifest: %v", i, err)
		}
		now := readFile()
		prev := epoch[len(epoch)-1].file
		if len(now) >= len(prev) && bytes.Equal(now[:len(prev)], prev) {
			epoch = append(epoch, mState{file: now, ref: copyRef(ref)})
		} else {
			rewrites++
			epoch = []mState{{file: now, ref: copyRef(ref)}}
		}
		// replaying what is on disk now gives the reference
		m, off, err := replayBytes(dir, now, opt)
		if err != nil {
			return res, fmt.Errorf("after set %d, replay: %v", i, err)
		}
		if err := manifestEquals(m, ref); err != nil {
			return res, fmt.Errorf("after set %d, replayed manifest: %v", i, err)
		}
		if off != int64(len(now)) {
			return res, fmt.Errorf("after set %d, replay stops at %d of %d bytes", i, off, len(now))
		}
		if c.Reopens[i] {
			if err := mf.Close(); err != nil {
				return res, fmt.Errorf("close: %v", err)
			}
			var m1 badger.Manifest
			mf, m1, err = badger.VerifManifestOpen(dir, c.Threshold, opt)
			if err != nil {
				return res, fmt.Errorf("reopen after set %d: %v", i, err)
			}
			if err := manifestEquals(m1, ref); err != nil {
				return res, fmt.Errorf("reopen after set %d: %v", i, err)
			}
		}
	}

	// ---- truncation at every byte of the current file
	final := epoch[len(epoch)-1].file
	for cut := 0; cut <= len(final); cut++ {
		m, off, err := replayBytes(dir, final[:cut], opt)
		if cut < 8 {
			if err == nil {
				return res, fmt.Errorf("cut %d (inside the magic): replay succeeded", cut)
			}
			continue
		}
		if err != nil {
			return res, fmt.Errorf("cut %d of %d: replay error %v", cut, len(final), err)
		}
		// expected: the last state whose file length <= cut; before the first set: empty, offset 8
		wantRef, wantOff := map[uint64]refTable{}, int64(8)
		for _, st := range epoch {
			if len(st.file) <= cut {
				wantRef, wantOff = st.ref, int64(len(st.file))
			}
		}
		if err := manifestEquals(m, wantRef); err != nil {
			return res, fmt.Errorf("cut %d of %d: %v", cut, len(final), err)
		}
		if off != wantOff {
			return res, fmt.Errorf("cut %d of %d: truncation offset %d, want %d", cut, len(final), off, wantOff)
		}
	}

	// ---- one damaged byte inside the body of a change set: error, or a state before that set
	if len(epoch) >= 2 {
		k := 1 + c.FlipSet%(len(epoch)-1) // set k spans [len(epoch[k-1].file), len(epoch[k].file))
		lo, hi := len(epoch[k-1].file)+8, len(epoch[k].file)
		if hi > lo {
			pos := lo + c.FlipPos%(hi-lo)
			dam := append([]byte{}, final...)
			dam[pos] ^= c.FlipMask
			m, _, err := replayBytes(dir, dam, opt)
			if err == nil {
				ok := false
				for j := 0; j < k; j++ {
					if manifestEquals(m, epoch[j].ref) == nil {
						ok = true
					}
				}
				if !ok {
					return res, fmt.Errorf("byte %d (body of change set %d of the current file) xor %#x: replay returned no error and a table map that is no state before that set: %v", pos, k, c.FlipMask, m.Tables)
				}
			}
			res.Classes = append(res.Classes, "body_flip")
		}
	}

	res.NonTrivial = rewrites > 0 && deletes > 0
	if rewrites > 0 {
		res.Classes = append(res.Classes, "rewrite")
	}
	if unknownDeletes > 0 {
		res.Classes = append(res.Classes, "delete_unknown_id")
	}
	return res, nil
}

func TestC17_Manifest(t *testing.T) {
	core.Run(t, "C17", "manifest",
		"rapid-generated sequences of 1-25 change sets (1-5 changes: create fresh id at level 0-6 with key id/compression, delete a live id, delete an unknown id), rewrite threshold 0-12 (automatic rewrites), optional close+reopen between sets; oracle = a reference map id->(level,keyID,compression): checked against the in-memory manifest and a ReplayManifestFile of the on-disk bytes after every set (incl. per-level sets and the truncation offset), then the current file is replayed truncated at EVERY byte (expected: state after the last complete set) and with one byte of one set's body xor-ed (expected: error, or a state before that set). Non-trivial = sequence with >=1 automatic rewrite and >=1 delete.",
		genC17, runC17)
}

func FuzzC17ManifestReplay(f *testing.F) {
	f.Add([]byte{})
	f.Add([]byte{0, 0, 0, 0, 0, 0, 0, 0})
	f.Add([]byte{0, 0, 0, 4, 1, 2, 3, 4, 10, 2, 8, 1})
	f.Add(bytes.Repeat([]byte{0xff}, 32))
	f.Fuzz(func(t *testing.T, body []byte) {
		if len(body) > 1<<14 {
			return
		}
		dir := core.Scratch("fz17")
		defer os.RemoveAll(dir)
		opt := badger.DefaultOptions(dir).WithLogger(nil)
		content := append([]byte{'B', 'd', 'g', 'r', 0, 0, 0, 8}, body...)
		m, off, err := replayBytes(dir, content, opt)
		if err != nil {
			return
		}
		if off < 8 || off > int64(len(content)) {
			t.Fatalf("truncation offset %d outside [8,%d]", off, len(content))
		}
		m2, off2, err2 := replayBytes(dir, content[:off], opt)
		if err2 != nil || off2 != off || len(m2.Tables) != len(m.Tables) {
			t.Fatalf("replay of the accepted prefix differs: off %d vs %d, err %v, tables %d vs %d", off2, off, err2, len(m2.Tables), len(m.Tables))
		}
		for id, tm := range m.Tables {
			if m2.Tables[id] != tm {
				t.Fatalf("table %d differs between replays", id)
			}
		}
	})
}
