package codec

import (
	"bytes"
	"fmt"
	"sort"
	"strings"
	"testing"

	"github.com/dgraph-io/badger/v4/pb"
	"github.com/dgraph-io/badger/v4/skl"
	"github.com/dgraph-io/badger/v4/trie"
	"github.com/dgraph-io/badger/v4/y"
	"pgregory.net/rapid"

	"verifharness/internal/core"
	"verifharness/internal/evid"
)

// ---- C22 (sequential half): skiplist == sorted map ----------------------------------------------

type sklOp struct {
	Kind int // 0 put, 1 get, 2 scan fwd, 3 scan rev, 4 seek fwd, 5 seek rev
	K    int // index into key pool
	Ts   uint64
	VLen int
	Tag  byte
}

type c22Case struct {
	Pool [][]byte
	Ops  []sklOp
}

func genC22(t *rapid.T) c22Case {
	var c c22Case
	np := rapid.IntRange(1, 12).Draw(t, "npool")
	for i := 0; i < np; i++ {
		c.Pool = append(c.Pool, rapid.SliceOfN(rapid.SampledFrom(keyAlphabet), 1, 5).Draw(t, "k"))
	}
	n := rapid.IntRange(1, 60).Draw(t, "nops")
	for i := 0; i < n; i++ {
		kind := rapid.SampledFrom([]int{0, 0, 0, 0, 1, 1, 2, 3, 4, 5}).Draw(t, "kind")
		c.Ops = append(c.Ops, sklOp{Kind: kind, K: rapid.IntRange(0, np-1).Draw(t, "ki"),
			Ts:   uint64(rapid.IntRange(0, 8).Draw(t, "ts")),
			VLen: rapid.SampledFrom([]int{0, 1, 3, 17, 200}).Draw(t, "vlen"), Tag: rapid.Byte().Draw(t, "tag")})
	}
	return c
}

func runC22(c c22Case, rec *evid.Rec) (core.Result, error) {
	var res core.Result
	arena := int64(1 << 12)
	for _, op := range c.Ops {
		if op.Kind == 0 {
			arena += int64(skl.MaxNodeSize + 16 + len(c.Pool[op.K]) + 8 + op.VLen + 32)
		}
	}
	l := skl.NewSkiplist(arena)
	defer l.DecrRef()
	model := map[string]tEntry{} // internal key -> entry
	sorted := func() []tEntry {
		var out []tEntry
		for _, e := range model {
			out = append(out, e)
		}
		sort.Slice(out, func(i, j int) bool { return cmpEntry(out[i], out[j]) < 0 })
		return out
	}
	overwrites, revSeeks := 0, 0
	for i, op := range c.Ops {
		k := c.Pool[op.K]
		switch op.Kind {
		case 0:
			v := bytes.Repeat([]byte{op.Tag}, op.VLen)
			e := tEntry{K: k, Ts: op.Ts, V: v, Meta: op.Tag & 0x0f, UM: op.Tag >> 1, Exp: uint64(op.Tag) * 3}
			if _, ok := model[string(e.ikey())]; ok {
				overwrites++
			}
			l.Put(e.ikey(), y.ValueStruct{Value: e.V, Meta: e.Meta, UserMeta: e.UM, ExpiresAt: e.Exp})
			model[string(e.ikey())] = e
		case 1:
			got := l.Get(y.KeyWithTs(k, op.Ts))
			// expected: same user key, greatest version <= op.Ts
			var want *tEntry
			for _, e := range model {
				e := e
				if bytes.Equal(e.K, k) && e.Ts <= op.Ts && (want == nil || e.Ts > want.Ts) {
					want = &e
				}
			}
			if want == nil {
				if got.Meta != 0 || got.Value != nil || got.Version != 0 {
					return res, fmt.Errorf("op %d: Get(%x@%d) = %+v, want nothing", i, k, op.Ts, got)
				}
			} else if got.Version != want.Ts || !bytes.Equal(got.Value, want.V) || got.Meta != want.Meta || got.UserMeta != want.UM || got.ExpiresAt != want.Exp {
				return res, fmt.Errorf("op %d: Get(%x@%d) = {v%d %x meta %d}, want %s", i, k, op.Ts, got.Version, got.Value, got.Meta, descr(*want))
			}
		default:
			var probes []tProbe
			if op.Kind >= 4 {
				probes = []tProbe{{k, op.Ts}}
				if op.Kind == 5 {
					revSeeks++
				}
			}
			mk := func(reverse bool) y.Iterator { return l.NewUniIterator(reverse) }
			if err := checkIter(fmt.Sprintf("op %d skiplist", i), mk, sorted(), probes); err != nil {
				return res, err
			}
		}
	}
	if l.Empty() != (len(model) == 0) {
		return res, fmt.Errorf("Empty() = %v with %d entries", l.Empty(), len(model))
	}
	if err := checkIter("final skiplist", func(r bool) y.Iterator { return l.NewUniIterator(r) }, sorted(), nil); err != nil {
		return res, err
	}
	res.NonTrivial = overwrites > 0 && revSeeks > 0
	if overwrites > 0 {
		res.Classes = append(res.Classes, "overwrite")
	}
	if revSeeks > 0 {
		res.Classes = append(res.Classes, "reverse_seek")
	}
	return res, nil
}

func TestC22_SkiplistSequential(t *testing.T) {
	core.Run(t, "C22", "sequential",
		"rapid-generated programs of 1-60 ops (Put / Get(key@ts) / forward and reverse full walks / Seek and SeekForPrev) over a pool of <=12 user keys (6-byte alphabet, prefix-related) x versions 0-8, value sizes {0,1,3,17,200}; oracle = a map sorted by CompareKeys (Get = same user key, greatest version <= asked). Non-trivial = program with >=1 overwrite of an existing internal key and >=1 reverse seek.",
		genC22, runC22)
}

// ---- trie (the matching half of C32) ------------------------------------------------------------------

type trieOp struct {
	Kind   int // 0 add, 1 delete, 2 get
	Prefix []byte
	Ignore string
	ID     uint64
	Key    []byte
}

type trieCase struct{ Ops []trieOp }

func genIgnore(t *rapid.T) string {
	n := rapid.IntRange(0, 3).Draw(t, "nig")
	var parts []string
	for i := 0; i < n; i++ {
		a := rapid.IntRange(0, 5).Draw(t, "a")
		if rapid.Bool().Draw(t, "range") {
			b := a + rapid.IntRange(0, 2).Draw(t, "b")
			parts = append(parts, fmt.Sprintf("%d-%d", a, b))
		} else {
			parts = append(parts, fmt.Sprintf("%d", a))
		}
	}
	sep := ","
	if rapid.Bool().Draw(t, "space") {
		sep = ", "
	}
	return strings.Join(parts, sep)
}

func genTrie(t *rapid.T) trieCase {
	var c trieCase
	n := rapid.IntRange(1, 30).Draw(t, "n")
	alpha := []byte{'a', 'b', 0x00, 0xFF}
	for i := 0; i < n; i++ {
		op := trieOp{Kind: rapid.SampledFrom([]int{0, 0, 1, 2, 2}).Draw(t, "kind")}
		op.Prefix = rapid.SliceOfN(rapid.SampledFrom(alpha), 0, 4).Draw(t, "prefix")
		op.Ignore = genIgnore(t)
		op.ID = uint64(rapid.IntRange(0, 3).Draw(t, "id"))
		op.Key = rapid.SliceOfN(rapid.SampledFrom(alpha), 0, 6).Draw(t, "key")
		c.Ops = append(c.Ops, op)
	}
	return c
}

// refIgnore is an independent parser of the documented IgnoreBytes syntax ("3, 5-8, 10").
func refIgnore(s string) map[int]bool {
	out := map[int]bool{}
	if strings.TrimSpace(s) == "" {
		return out
	}
	for _, part := range strings.Split(s, ",") {
		part = strings.TrimSpace(part)
		var a, b int
		if strings.Contains(part, "-") {
			fmt.Sscanf(part, "%d-%d", &a, &b)
		} else {
			fmt.Sscanf(part, "%d", &a)
			b = a
		}
		for i := a; i <= b; i++ {
			out[i] = true
		}
	}
	return out
}

func pathOf(prefix []byte, ign map[int]bool) string {
	var sb strings.Builder
	for i, b := range prefix {
		if ign[i] {
			sb.WriteString("**")
		} else {
			fmt.Fprintf(&sb, "%02x", b)
		}
	}
	return sb.String()
}

func pathMatches(path string, key []byte) bool {
	n := len(path) / 2
	if len(key) < n {
		return false
	}
	for i := 0; i < n; i++ {
		p := path[2*i : 2*i+2]
		if p != "**" && p != fmt.Sprintf("%02x", key[i]) {
			return false
		}
	}
	return true
}

func runTrie(c trieCase, rec *evid.Rec) (core.Result, error) {
	var res core.Result
	tr := trie.NewTrie()
	model := map[string]map[uint64]bool{} // wildcarded path -> ids
	hasIgnore, shortKey := false, false
	for i, op := range c.Ops {
		ign := refIgnore(op.Ignore)
		path := pathOf(op.Prefix, ign)
		switch op.Kind {
		case 0:
			if err := tr.AddMatch(pb.Match{Prefix: op.Prefix, IgnoreBytes: op.Ignore}, op.ID); err != nil {
				return res, fmt.Errorf("op %d AddMatch(%x,%q): %v", i, op.Prefix, op.Ignore, err)
			}
			if model[path] == nil {
				model[path] = map[uint64]bool{}
			}
			model[path][op.ID] = true
			if strings.Contains(path, "**") {
				hasIgnore = true
			}
		case 1:
			if err := tr.DeleteMatch(pb.Match{Prefix: op.Prefix, IgnoreBytes: op.Ignore}, op.ID); err != nil {
				return res, fmt.Errorf("op %d DeleteMatch(%x,%q): %v", i, op.Prefix, op.Ignore, err)
			}
			delete(model[path], op.ID)
		case 2:
			got := tr.Get(op.Key)
			want := map[uint64]bool{}
			for p, ids := range model {
				if pathMatches(p, op.Key) {
					for id := range ids {
						want[id] = true
					}
				} else if len(ids) > 0 && len(op.Key) < len(p)/2 {
					shortKey = true
				}
			}
			if len(got) != len(want) {
				return res, fmt.Errorf("op %d Get(%x) = %v, want %v (model %v)", i, op.Key, got, want, model)
			}
			for id := range want {
				if _, ok := got[id]; !ok {
					return res, fmt.Errorf("op %d Get(%x) = %v, want %v (model %v)", i, op.Key, got, want, model)
				}
			}
		}
	}
	res.NonTrivial = hasIgnore && shortKey
	if hasIgnore {
		res.Classes = append(res.Classes, "ignore_pattern")
	}
	if shortKey {
		res.Classes = append(res.Classes, "key_shorter_than_pattern")
	}
	return res, nil
}

func TestC32_Trie(t *testing.T) {
	core.Run(t, "C32", "trie",
		"rapid-generated sequences of AddMatch/DeleteMatch/Get over prefixes of length 0-4 (alphabet a,b,0x00,0xFF), ignore specs like \"1\", \"0-1, 3\", ids 0-3, lookup keys of length 0-6; oracle = brute force over the set of (wildcarded prefix path, id) pairs with an independent parser of the ignore syntax. Non-trivial = sequence with an ignore-position pattern and a lookup key shorter than a registered pattern.",
		genTrie, runTrie)
}
