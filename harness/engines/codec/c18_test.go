package codec

import (
	"bytes"
	"fmt"
	"os"
	"path/filepath"
	"sort"
	"sync/atomic"
	"testing"

	"github.com/dgraph-io/badger/v4/fb"
	"github.com/dgraph-io/badger/v4/options"
	"github.com/dgraph-io/badger/v4/pb"
	"github.com/dgraph-io/badger/v4/table"
	"github.com/dgraph-io/badger/v4/y"
	"github.com/dgraph-io/ristretto/v2"
	"pgregory.net/rapid"

	"verifharness/internal/core"
	"verifharness/internal/evid"
)

// ---- shared table helpers ----------------------------------------------------------------------

type tEntry struct {
	K    []byte
	Ts   uint64
	V    []byte
	Meta byte
	UM   byte
	Exp  uint64
}

func (e tEntry) ikey() []byte { return y.KeyWithTs(e.K, e.Ts) }

type tOpts struct {
	BlockSize   int
	Compression int // 0 none 1 snappy 2 zstd
	EncKeyLen   int // 0, 16, 24, 32
	Bloom       float64
	ChkMode     int
	InMem       bool
	Cache       bool
}

type tProbe struct {
	K  []byte
	Ts uint64
}

var (
	sharedIndexCache *ristretto.Cache[uint64, *fb.TableIndex]
	sharedBlockCache *ristretto.Cache[[]byte, *table.Block]
	tableSeq         atomic.Uint64
)

func init() {
	var err error
	sharedIndexCache, err = ristretto.NewCache(&ristretto.Config[uint64, *fb.TableIndex]{NumCounters: 1 << 12, MaxCost: 1 << 24, BufferItems: 64})
	if err != nil {
		panic(err)
	}
	sharedBlockCache, err = ristretto.NewCache(&ristretto.Config[[]byte, *table.Block]{NumCounters: 1 << 12, MaxCost: 1 << 24, BufferItems: 64, OnExit: table.BlockEvictHandler})
	if err != nil {
		panic(err)
	}
	tableSeq.Store(uint64(os.Getpid()%30000) * 100000)
}

func (o tOpts) tableOptions(encKey []byte) table.Options {
	to := table.Options{
		TableSize:            1 << 20,
		BlockSize:            o.BlockSize,
		BloomFalsePositive:   o.Bloom,
		Compression:          options.CompressionType(o.Compression),
		ZSTDCompressionLevel: 1,
		ChkMode:              options.ChecksumVerificationMode(o.ChkMode),
	}
	if o.EncKeyLen > 0 {
		to.DataKey = &pb.DataKey{KeyId: 7, Data: encKey[:o.EncKeyLen], Iv: make([]byte, 12)}
		to.IndexCache = sharedIndexCache
	}
	if o.Cache || o.EncKeyLen > 0 {
		to.BlockCache = sharedBlockCache
		to.IndexCache = sharedIndexCache
	}
	return to
}

var encKeyMaterial = []byte("0123456789abcdefFEDCBA9876543210")

// buildTable builds a table from sorted entries; returned cleanup releases it.
func buildTable(dir string, ents []tEntry, o tOpts) (*table.Table, error) {
	to := o.tableOptions(encKeyMaterial)
	sz := 1 << 14
	for _, e := range ents {
		sz += 2 * (len(e.K) + len(e.V) + 64)
	}
	to.TableSize = uint64(sz) // the builder allocates 2x this up front
	b := table.NewTableBuilder(to)
	defer b.Close()
	for _, e := range ents {
		b.Add(e.ikey(), y.ValueStruct{Value: e.V, Meta: e.Meta, UserMeta: e.UM, ExpiresAt: e.Exp}, 0)
	}
	id := tableSeq.Add(1)
	if o.InMem {
		return table.OpenInMemoryTable(b.Finish(), id, &to)
	}
	return table.CreateTable(filepath.Join(dir, table.IDToFilename(id)), b)
}

func cmpEntry(a, b tEntry) int { return y.CompareKeys(a.ikey(), b.ikey()) }

func sortDedup(ents []tEntry) []tEntry {
	sort.SliceStable(ents, func(i, j int) bool { return cmpEntry(ents[i], ents[j]) < 0 })
	out := ents[:0]
	for i, e := range ents {
		if i > 0 && cmpEntry(out[len(out)-1], e) == 0 {
			continue
		}
		out = append(out, e)
	}
	return out
}

func genEntries(t *rapid.T, minN, maxN int, blockSize int, allowLong bool) []tEntry {
	n := rapid.IntRange(minN, maxN).Draw(t, "n")
	nprefix := rapid.IntRange(1, 4).Draw(t, "nprefix")
	prefixes := make([][]byte, nprefix)
	for i := range prefixes {
		prefixes[i] = rapid.SliceOfN(rapid.SampledFrom(keyAlphabet), 0, 12).Draw(t, "prefix")
	}
	var ents []tEntry
	for i := 0; i < n; i++ {
		p := prefixes[rapid.IntRange(0, nprefix-1).Draw(t, "pi")]
		var k []byte
		if allowLong && rapid.IntRange(0, 1499).Draw(t, "long") == 0 {
			ln := rapid.SampledFrom([]int{1000, 4096, 64999, 65000}).Draw(t, "longlen")
			k = bytes.Repeat([]byte{'L'}, ln)
			copy(k, p)
			k[ln-1] = rapid.Byte().Draw(t, "longtail")
		} else {
			suf := rapid.SliceOfN(rapid.SampledFrom(keyAlphabet), 0, 5).Draw(t, "suffix")
			k = append(append([]byte{}, p...), suf...)
			if len(k) == 0 {
				k = []byte{'a'}
			}
		}
		nv := rapid.IntRange(1, 3).Draw(t, "nv")
		for v := 0; v < nv; v++ {
			vs := rapid.OneOf(rapid.IntRange(0, 40), rapid.IntRange(0, 40), rapid.IntRange(blockSize/2, blockSize+64),
				rapid.IntRange(0, 3*blockSize)).Draw(t, "vsize")
			val := make([]byte, vs)
			fill := rapid.Byte().Draw(t, "fill")
			for j := range val {
				val[j] = fill + byte(j*7)
			}
			ents = append(ents, tEntry{K: k, Ts: genU64().Draw(t, "ts"), V: val,
				Meta: rapid.Byte().Draw(t, "meta"), UM: rapid.Byte().Draw(t, "um"),
				Exp: rapid.OneOf(rapid.Just(uint64(0)), genU64()).Draw(t, "exp")})
		}
	}
	return sortDedup(ents)
}

func genTOpts(t *rapid.T) tOpts {
	return tOpts{
		BlockSize:   rapid.SampledFrom([]int{64, 128, 256, 512, 1024, 4096}).Draw(t, "blocksize"),
		Compression: rapid.IntRange(0, 2).Draw(t, "compression"),
		EncKeyLen:   rapid.SampledFrom([]int{0, 0, 16, 24, 32}).Draw(t, "enc"),
		Bloom:       rapid.SampledFrom([]float64{0, 0.01, 0.5, 0.000001, 0.999}).Draw(t, "bloom"),
		ChkMode:     rapid.IntRange(0, 3).Draw(t, "chk"),
		InMem:       rapid.Bool().Draw(t, "inmem"),
		Cache:       rapid.Bool().Draw(t, "cache"),
	}
}

func entryAt(it y.Iterator) tEntry {
	k := it.Key()
	v := it.Value()
	return tEntry{K: append([]byte{}, y.ParseKey(k)...), Ts: y.ParseTs(k), V: append([]byte{}, v.Value...), Meta: v.Meta, UM: v.UserMeta, Exp: v.ExpiresAt}
}

func sameEntry(a, b tEntry) bool {
	return bytes.Equal(a.K, b.K) && a.Ts == b.Ts && bytes.Equal(a.V, b.V) && a.Meta == b.Meta && a.UM == b.UM && a.Exp == b.Exp
}

func descr(e tEntry) string {
	k := e.K
	if len(k) > 24 {
		k = k[:24]
	}
	return fmt.Sprintf("%x(len %d)@%d vlen=%d meta=%d um=%d exp=%d", k, len(e.K), e.Ts, len(e.V), e.Meta, e.UM, e.Exp)
}

// checkIter compares a y.Iterator (forward or reverse) with the expected sorted entry list:
// full scan after Rewind and Seek from every probe.
func checkIter(name string, mk func(reverse bool) y.Iterator, ents []tEntry, probes []tProbe) error {
	for _, reverse := range []bool{false, true} {
		it := mk(reverse)
		want := ents
		if reverse {
			want = make([]tEntry, len(ents))
			for i, e := range ents {
				want[len(ents)-1-i] = e
			}
		}
		i := 0
		for it.Rewind(); it.Valid(); it.Next() {
			if i >= len(want) {
				it.Close()
				return fmt.Errorf("%s reverse=%v: extra entry %s after %d expected", name, reverse, descr(entryAt(it)), len(want))
			}
			if got := entryAt(it); !sameEntry(got, want[i]) {
				it.Close()
				return fmt.Errorf("%s reverse=%v: entry %d = %s, want %s", name, reverse, i, descr(got), descr(want[i]))
			}
			i++
		}
		if i != len(want) {
			it.Close()
			return fmt.Errorf("%s reverse=%v: scan yielded %d entries, want %d", name, reverse, i, len(want))
		}
		for _, p := range probes {
			pk := y.KeyWithTs(p.K, p.Ts)
			// expected landing index in `ents` (ascending order)
			idx := sort.Search(len(ents), func(j int) bool { return y.CompareKeys(ents[j].ikey(), pk) >= 0 })
			var exp []tEntry
			if !reverse {
				exp = ents[idx:]
			} else {
				if idx < len(ents) && y.CompareKeys(ents[idx].ikey(), pk) == 0 {
					idx++
				}
				for j := idx - 1; j >= 0; j-- {
					exp = append(exp, ents[j])
				}
			}
			it.Seek(pk)
			// verify landing entry and up to 3 following ones
			for j := 0; j < 4; j++ {
				if j >= len(exp) {
					if it.Valid() {
						err := fmt.Errorf("%s reverse=%v: Seek(%x@%d) step %d: valid at %s, want exhausted", name, reverse, p.K, p.Ts, j, descr(entryAt(it)))
						it.Close()
						return err
					}
					break
				}
				if !it.Valid() {
					it.Close()
					return fmt.Errorf("%s reverse=%v: Seek(%x@%d) step %d: exhausted, want %s", name, reverse, p.K, p.Ts, j, descr(exp[j]))
				}
				if got := entryAt(it); !sameEntry(got, exp[j]) {
					it.Close()
					return fmt.Errorf("%s reverse=%v: Seek(%x@%d) step %d: got %s, want %s", name, reverse, p.K, p.Ts, j, descr(got), descr(exp[j]))
				}
				it.Next()
			}
		}
		it.Close()
	}
	return nil
}

func genProbes(t *rapid.T, ents []tEntry, n int) []tProbe {
	var ps []tProbe
	for i := 0; i < n; i++ {
		switch rapid.IntRange(0, 5).Draw(t, "probekind") {
		case 0, 1: // present
			e := ents[rapid.IntRange(0, len(ents)-1).Draw(t, "pi")]
			ps = append(ps, tProbe{e.K, e.Ts})
		case 2: // present key, other version
			e := ents[rapid.IntRange(0, len(ents)-1).Draw(t, "pi")]
			ps = append(ps, tProbe{e.K, genU64().Draw(t, "pts")})
		case 3: // neighbour key
			e := ents[rapid.IntRange(0, len(ents)-1).Draw(t, "pi")]
			k := append(append([]byte{}, e.K...), rapid.SampledFrom(keyAlphabet).Draw(t, "pext"))
			if rapid.Bool().Draw(t, "trim") && len(e.K) > 1 {
				k = append([]byte{}, e.K[:len(e.K)-1]...)
			}
			ps = append(ps, tProbe{k, genU64().Draw(t, "pts")})
		case 4: // below min / above max
			if rapid.Bool().Draw(t, "low") {
				ps = append(ps, tProbe{[]byte{0x00}, ^uint64(0)})
			} else {
				ps = append(ps, tProbe{bytes.Repeat([]byte{0xFF}, 14), 0})
			}
		default:
			ps = append(ps, tProbe{genUserKey().Draw(t, "pk"), genU64().Draw(t, "pts")})
		}
	}
	return ps
}

// ---- C18 ---------------------------------------------------------------------------------------

type c18Case struct {
	Opts   tOpts
	Ents   []tEntry
	Probes []tProbe
	Splits []int // chunk boundaries for the concat check
}

func genC18(t *rapid.T) c18Case {
	var c c18Case
	c.Opts = genTOpts(t)
	c.Ents = genEntries(t, 1, 60, c.Opts.BlockSize, true)
	c.Probes = genProbes(t, c.Ents, 6)
	ns := rapid.IntRange(0, 3).Draw(t, "nsplits")
	for i := 0; i < ns && len(c.Ents) > 1; i++ {
		c.Splits = append(c.Splits, rapid.IntRange(1, len(c.Ents)-1).Draw(t, "split"))
	}
	sort.Ints(c.Splits)
	return c
}

func runC18(c c18Case, rec *evid.Rec) (core.Result, error) {
	var res core.Result
	dir := core.Scratch("c18")
	defer os.RemoveAll(dir)
	tbl, err := buildTable(dir, c.Ents, c.Opts)
	if err != nil {
		return res, fmt.Errorf("building table (%+v, %d entries): %v", c.Opts, len(c.Ents), err)
	}
	defer tbl.DecrRef()

	first, last := c.Ents[0], c.Ents[len(c.Ents)-1]
	if !bytes.Equal(tbl.Smallest(), first.ikey()) {
		return res, fmt.Errorf("Smallest() = %x, want %s", tbl.Smallest(), descr(first))
	}
	if !bytes.Equal(tbl.Biggest(), last.ikey()) {
		return res, fmt.Errorf("Biggest() = %x, want %s", tbl.Biggest(), descr(last))
	}
	var maxV uint64
	for _, e := range c.Ents {
		if e.Ts > maxV {
			maxV = e.Ts
		}
	}
	if tbl.MaxVersion() != maxV {
		return res, fmt.Errorf("MaxVersion() = %d, want %d", tbl.MaxVersion(), maxV)
	}
	if int(tbl.KeyCount()) != len(c.Ents) {
		return res, fmt.Errorf("KeyCount() = %d, want %d", tbl.KeyCount(), len(c.Ents))
	}
	if err := tbl.VerifyChecksum(); err != nil {
		return res, fmt.Errorf("VerifyChecksum: %v", err)
	}
	for _, e := range c.Ents {
		if tbl.DoesNotHave(y.Hash(e.K)) {
			return res, fmt.Errorf("DoesNotHave(hash(%x)) is true for a key in the table (bloom fp=%v)", e.K, c.Opts.Bloom)
		}
	}
	// block-boundary probes: first key of every block (and its predecessor entry)
	blockFirst := tbl.KeySplits(1<<30, nil)
	probes := append([]tProbe{}, c.Probes...)
	boundaryProbes := 0
	if len(blockFirst) >= 2 {
		for _, bk := range blockFirst[1:] {
			k := []byte(bk)
			probes = append(probes, tProbe{append([]byte{}, y.ParseKey(k)...), y.ParseTs(k)})
			boundaryProbes++
			if boundaryProbes >= 6 {
				break
			}
		}
	}
	mk := func(reverse bool) y.Iterator {
		opt := 0
		if reverse {
			opt = table.REVERSED
		}
		if !c.Opts.Cache {
			opt |= table.NOCACHE
		}
		return tbl.NewIterator(opt)
	}
	if err := checkIter("table", mk, c.Ents, probes); err != nil {
		return res, err
	}

	// concatenated iteration across 1..4 tables holding contiguous chunks
	if len(c.Splits) > 0 {
		var tbls []*table.Table
		prev := 0
		bounds := append(append([]int{}, c.Splits...), len(c.Ents))
		for _, b := range bounds {
			if b <= prev {
				continue
			}
			tb, err := buildTable(dir, c.Ents[prev:b], c.Opts)
			if err != nil {
				return res, fmt.Errorf("building chunk table: %v", err)
			}
			tbls = append(tbls, tb)
			prev = b
		}
		defer func() {
			for _, tb := range tbls {
				tb.DecrRef()
			}
		}()
		mkc := func(reverse bool) y.Iterator {
			opt := 0
			if reverse {
				opt = table.REVERSED
			}
			return table.NewConcatIterator(tbls, opt)
		}
		if err := checkIter(fmt.Sprintf("concat(%d tables)", len(tbls)), mkc, c.Ents, probes); err != nil {
			return res, err
		}
		res.Classes = append(res.Classes, "concat")
	}

	nblocks := len(blockFirst)
	res.NonTrivial = nblocks >= 3 && boundaryProbes > 0
	if nblocks >= 3 {
		res.Classes = append(res.Classes, "blocks>=3")
	}
	if c.Opts.EncKeyLen > 0 {
		res.Classes = append(res.Classes, "encrypted")
	}
	if c.Opts.Compression > 0 {
		res.Classes = append(res.Classes, "compressed")
	}
	if c.Opts.InMem {
		res.Classes = append(res.Classes, "inmemory")
	}
	for _, e := range c.Ents {
		if len(e.K) >= 64999 {
			res.Classes = append(res.Classes, "key>=64999")
			break
		}
	}
	return res, nil
}

func TestC18_Tables(t *testing.T) {
	core.Run(t, "C18", "tables",
		"rapid-generated strictly increasing versioned entry lists (1-180 entries, shared-prefix keys over a 6-byte alphabet, rare 1000..65000-byte keys, 1-3 versions per key, value sizes around and across the block size) x table options (BlockSize 64..4096, None/Snappy/ZSTD, AES key 0/16/24/32 bytes, bloom fp in {0,1e-6,.01,.5,.999}, all ChkModes, file or in-memory, cache on/off); oracle = the input list: forward/reverse scans, Seek/SeekForPrev from present, absent, below-min, above-max and block-first keys, ConcatIterator over 1-4 chunk tables, Smallest/Biggest/MaxVersion/KeyCount/VerifyChecksum/DoesNotHave. Non-trivial = table has >=3 blocks and at least one seek probe is a block's first key.",
		genC18, runC18)
}
