package codec

import (
	"bytes"
	"fmt"
	"math"
	"os"
	"sort"
	"testing"

	"github.com/dgraph-io/badger/v4/skl"
	"github.com/dgraph-io/badger/v4/table"
	"github.com/dgraph-io/badger/v4/y"
	"pgregory.net/rapid"

	"verifharness/internal/core"
	"verifharness/internal/evid"
)

// ---- C19: bloom filters -------------------------------------------------------------------------

type c19Case struct {
	Hashes []uint32
	FP     float64
	// table-level half
	Keys    [][]byte
	TblOpts tOpts
}

func genC19(t *rapid.T) c19Case {
	var c c19Case
	edge := []uint32{0, 1, math.MaxUint32, math.MaxUint32 - 1, 1 << 17, 1 << 15, 1<<17 - 1, 0x80000000, 64, 63, 65}
	n := rapid.OneOf(rapid.IntRange(1, 8), rapid.IntRange(1, 200), rapid.IntRange(64, 5000)).Draw(t, "n")
	base := rapid.Uint32().Draw(t, "base")
	mode := rapid.IntRange(0, 3).Draw(t, "mode")
	for i := 0; i < n; i++ {
		switch mode {
		case 0:
			c.Hashes = append(c.Hashes, rapid.Uint32().Draw(t, "h"))
		case 1: // clustered
			c.Hashes = append(c.Hashes, base+uint32(rapid.IntRange(0, 64).Draw(t, "d")))
		case 2: // multiples (collide modulo nBits)
			c.Hashes = append(c.Hashes, uint32(rapid.IntRange(0, 1000).Draw(t, "m"))*uint32(rapid.SampledFrom([]int{64, 128, 1024, 8}).Draw(t, "mul")))
		default:
			c.Hashes = append(c.Hashes, rapid.OneOf(rapid.SampledFrom(edge), rapid.Uint32()).Draw(t, "h"))
		}
	}
	c.FP = rapid.OneOf(rapid.SampledFrom([]float64{1e-9, 1e-6, 0.001, 0.01, 0.1, 0.5, 0.9, 0.999, 0.999999}),
		rapid.Float64Range(1e-9, 0.999999)).Draw(t, "fp")
	nk := rapid.OneOf(rapid.IntRange(1, 20), rapid.IntRange(64, 400)).Draw(t, "nk")
	seen := map[string]bool{}
	for i := 0; i < nk; i++ {
		k := rapid.OneOf(rapid.SliceOfN(rapid.SampledFrom(keyAlphabet), 1, 8), rapid.SliceOfN(rapid.Byte(), 1, 24)).Draw(t, "k")
		if !seen[string(k)] {
			seen[string(k)] = true
			c.Keys = append(c.Keys, k)
		}
	}
	c.TblOpts = tOpts{BlockSize: rapid.SampledFrom([]int{128, 4096}).Draw(t, "bs"), Bloom: c.FP,
		Compression: rapid.IntRange(0, 2).Draw(t, "comp"), EncKeyLen: rapid.SampledFrom([]int{0, 0, 16, 32}).Draw(t, "enc"),
		InMem: rapid.Bool().Draw(t, "inmem")}
	return c
}

func runC19(c c19Case, rec *evid.Rec) (core.Result, error) {
	var res core.Result
	bpk := y.BloomBitsPerKey(len(c.Hashes), c.FP)
	f := y.NewFilter(c.Hashes, bpk)
	for _, h := range c.Hashes {
		if !f.MayContain(h) {
			return res, fmt.Errorf("filter(n=%d, fp=%g, bitsPerKey=%d) reports added hash %#x as absent", len(c.Hashes), c.FP, bpk, h)
		}
	}
	// table half: every key the table was built from must pass its bloom filter
	var ents []tEntry
	for _, k := range c.Keys {
		ents = append(ents, tEntry{K: k, Ts: 5, V: []byte("v")}, tEntry{K: k, Ts: 3, V: []byte("w")})
	}
	ents = sortDedup(ents)
	dir := core.Scratch("c19")
	defer os.RemoveAll(dir)
	tbl, err := buildTable(dir, ents, c.TblOpts)
	if err != nil {
		return res, fmt.Errorf("building table: %v", err)
	}
	defer tbl.DecrRef()
	if tbl.BloomFilterSize() == 0 {
		return res, fmt.Errorf("table built with fp=%g carries no bloom filter", c.FP)
	}
	for _, k := range c.Keys {
		if tbl.DoesNotHave(y.Hash(k)) {
			return res, fmt.Errorf("table (fp=%g, %d keys) DoesNotHave(hash(%x)) = true for a built key", c.FP, len(c.Keys), k)
		}
	}
	res.NonTrivial = len(c.Hashes) >= 64 || len(c.Keys) >= 64
	if len(c.Hashes) >= 64 {
		res.Classes = append(res.Classes, "hashes>=64")
	}
	if c.FP > 0.9 {
		res.Classes = append(res.Classes, "fp>0.9")
	}
	if c.FP < 1e-5 {
		res.Classes = append(res.Classes, "fp<1e-5")
	}
	return res, nil
}

func TestC19_Bloom(t *testing.T) {
	core.Run(t, "C19", "filter",
		"rapid-generated hash sets (1-5000 hashes: uniform, clustered, multiples of powers of two, edge values 0/MaxUint32) x false-positive settings in (0,1) incl. 1e-9 and 0.999999: every added hash must pass y.Filter; plus a table built from 1-400 generated user keys (2 versions each, compression/encryption/in-memory varied) whose DoesNotHave must be false for every built key. Non-trivial = >=64 hashes or >=64 table keys.",
		genC19, runC19)
}

// ---- C21: merge iterator -----------------------------------------------------------------------------

// sliceIter is a y.Iterator over a sorted slice (ascending CompareKeys order), optionally reversed.
type sliceIter struct {
	ents    []tEntry
	idx     int
	reverse bool
}

func (s *sliceIter) Next() {
	if s.reverse {
		s.idx--
	} else {
		s.idx++
	}
}
func (s *sliceIter) Rewind() {
	if s.reverse {
		s.idx = len(s.ents) - 1
	} else {
		s.idx = 0
	}
}
func (s *sliceIter) Seek(key []byte) {
	i := sort.Search(len(s.ents), func(j int) bool { return y.CompareKeys(s.ents[j].ikey(), key) >= 0 })
	if !s.reverse {
		s.idx = i
		return
	}
	if i < len(s.ents) && y.CompareKeys(s.ents[i].ikey(), key) == 0 {
		s.idx = i
	} else {
		s.idx = i - 1
	}
}
func (s *sliceIter) Key() []byte { return s.ents[s.idx].ikey() }
func (s *sliceIter) Value() y.ValueStruct {
	e := s.ents[s.idx]
	return y.ValueStruct{Value: e.V, Meta: e.Meta, UserMeta: e.UM, ExpiresAt: e.Exp}
}
func (s *sliceIter) Valid() bool  { return s.idx >= 0 && s.idx < len(s.ents) }
func (s *sliceIter) Close() error { return nil }

type c21Case struct {
	Inputs [][]tEntry
	Kinds  []int // 0 slice, 1 table, 2 skiplist
	Probes []tProbe
}

// genVersion: mostly small versions (collisions across inputs), sometimes values around the 32- and
// 63-bit boundaries and the top of the range (versions are arbitrary uint64 in managed mode).
func genVersion(t *rapid.T, label string) uint64 {
	if rapid.IntRange(0, 3).Draw(t, label+"big") == 0 {
		return rapid.SampledFrom([]uint64{1 << 31, 1 << 32, 1<<32 + 1, 1<<63 - 1, 1 << 63, 1<<63 + 1, 1<<64 - 2, 1<<64 - 1}).Draw(t, label)
	}
	return uint64(rapid.IntRange(0, 5).Draw(t, label+"small"))
}

func genC21(t *rapid.T) c21Case {
	var c c21Case
	n := rapid.IntRange(0, 9).Draw(t, "ninputs")
	// a small shared pool of internal keys so that duplicates across inputs are the norm
	npool := rapid.IntRange(1, 14).Draw(t, "npool")
	type ik struct {
		k  []byte
		ts uint64
	}
	var pool []ik
	for i := 0; i < npool; i++ {
		pool = append(pool, ik{rapid.SliceOfN(rapid.SampledFrom(keyAlphabet), 1, 4).Draw(t, "pk"), genVersion(t, "pts")})
	}
	for i := 0; i < n; i++ {
		m := rapid.IntRange(0, 10).Draw(t, "m")
		var ents []tEntry
		for j := 0; j < m; j++ {
			p := pool[rapid.IntRange(0, npool-1).Draw(t, "pi")]
			// the value identifies the input, so precedence is observable
			ents = append(ents, tEntry{K: p.k, Ts: p.ts, V: []byte(fmt.Sprintf("in%d", i)), UM: byte(i)})
		}
		c.Inputs = append(c.Inputs, sortDedup(ents))
		c.Kinds = append(c.Kinds, rapid.SampledFrom([]int{0, 0, 1, 2}).Draw(t, "kind"))
	}
	np := rapid.IntRange(0, 5).Draw(t, "nprobes")
	for i := 0; i < np; i++ {
		if rapid.Bool().Draw(t, "frompool") {
			p := pool[rapid.IntRange(0, npool-1).Draw(t, "ppi")]
			c.Probes = append(c.Probes, tProbe{p.k, genVersion(t, "pts2")})
		} else {
			c.Probes = append(c.Probes, tProbe{rapid.SliceOfN(rapid.SampledFrom(keyAlphabet), 1, 5).Draw(t, "k"), genVersion(t, "ts")})
		}
	}
	return c
}

func runC21(c c21Case, rec *evid.Rec) (core.Result, error) {
	var res core.Result
	// expected: sorted union, earliest input wins on equal internal keys
	var want []tEntry
	seen := map[string]bool{}
	shared := 0
	for _, in := range c.Inputs {
		for _, e := range in {
			k := string(e.ikey())
			if seen[k] {
				shared++
				continue
			}
			seen[k] = true
			want = append(want, e)
		}
	}
	sort.SliceStable(want, func(i, j int) bool { return cmpEntry(want[i], want[j]) < 0 })

	dir := core.Scratch("c21")
	defer os.RemoveAll(dir)
	var tables []*table.Table
	var lists []*skl.Skiplist
	defer func() {
		for _, tb := range tables {
			tb.DecrRef()
		}
		for _, l := range lists {
			l.DecrRef()
		}
	}()
	kinds := append([]int{}, c.Kinds...)
	for i, in := range c.Inputs {
		switch kinds[i] {
		case 1:
			if len(in) == 0 {
				kinds[i] = 0 // an empty table cannot be built; use an empty slice iterator
				continue
			}
			tb, err := buildTable(dir, in, tOpts{BlockSize: 64, Bloom: 0.01, InMem: i%2 == 0})
			if err != nil {
				return res, fmt.Errorf("building input table: %v", err)
			}
			tables = append(tables, tb)
		case 2:
			l := skl.NewSkiplist(1 << 16)
			for _, e := range in {
				l.Put(e.ikey(), y.ValueStruct{Value: e.V, Meta: e.Meta, UserMeta: e.UM, ExpiresAt: e.Exp})
			}
			lists = append(lists, l)
		}
	}
	mk := func(reverse bool) y.Iterator {
		var iters []y.Iterator
		ti, li := 0, 0
		for i, in := range c.Inputs {
			switch kinds[i] {
			case 0:
				iters = append(iters, &sliceIter{ents: in, reverse: reverse})
			case 1:
				opt := 0
				if reverse {
					opt = table.REVERSED
				}
				iters = append(iters, tables[ti].NewIterator(opt))
				ti++
			case 2:
				iters = append(iters, lists[li].NewUniIterator(reverse))
				li++
			}
		}
		return table.NewMergeIterator(iters, reverse)
	}
	if len(c.Inputs) == 0 {
		it := mk(false)
		if it != nil {
			it.Rewind()
			if it.Valid() {
				return res, fmt.Errorf("merge of zero inputs is valid")
			}
			it.Close()
		}
		return res, nil
	}
	if err := checkIter(fmt.Sprintf("merge(%d inputs, kinds %v)", len(c.Inputs), kinds), mk, want, c.Probes); err != nil {
		return res, err
	}
	res.NonTrivial = len(c.Inputs) >= 3 && shared > 0
	if shared > 0 {
		res.Classes = append(res.Classes, "shared_keys")
	}
	for _, in := range c.Inputs {
		if len(in) == 0 {
			res.Classes = append(res.Classes, "has_empty_input")
			break
		}
	}
	if len(c.Inputs) >= 3 {
		res.Classes = append(res.Classes, "inputs>=3")
	}
	_ = bytes.Equal
	return res, nil
}

func TestC21_MergeIterator(t *testing.T) {
	core.Run(t, "C21", "merge",
		"rapid-generated 0-9 sorted inputs (slice-backed y.Iterators, real tables, real skiplists; 0-10 entries each drawn from a shared pool of <=14 internal keys (versions 0-5 and values around 2^31, 2^32, 2^63, 2^64-1) so duplicates across inputs are the norm; values tag the input index) merged forward and reverse; oracle = sorted union keeping the copy from the earliest input; full scans plus Seek from pool and random keys. Non-trivial = >=3 inputs with at least one internal key present in >=2 inputs.",
		genC21, runC21)
}
