package lsm

import (
	"fmt"
	"math"
	"os"
	"testing"

	badger "github.com/dgraph-io/badger/v4"
	"pgregory.net/rapid"

	"verifharness/internal/core"
	"verifharness/internal/dbx"
	"verifharness/internal/evid"
)

// ---- C28 (second part): a transaction filled right up to its size budget still commits -------------

type c28bCase struct {
	Spec     dbx.Spec `json:"spec"`
	CommitTs uint64   `json:"committs"` // managed mode: the commit timestamp (its decimal length matters)
	Sizes    []int    `json:"sizes"`    // value sizes of the filling writes
	KeyLen   int      `json:"keylen"`
	Warmup   int      `json:"warmup"` // normal mode: commits before the big transaction (raises the timestamp)
}

func runC28b(c c28bCase, rec *evid.Rec) (core.Result, error) {
	var res core.Result
	dir := core.Scratch("budget")
	defer os.RemoveAll(dir)
	db, err := c.Spec.Open(dir, nil)
	if err != nil {
		return res, fmt.Errorf("open: %v", err)
	}
	defer db.Close()
	managed := c.Spec.Managed
	if !managed {
		for i := 0; i < c.Warmup; i++ {
			if err := db.Update(func(txn *badger.Txn) error { return txn.Set([]byte("w"), []byte{byte(i)}) }); err != nil {
				return res, err
			}
		}
	}
	var txn *badger.Txn
	if managed {
		txn = db.NewTransactionAt(math.MaxUint64, true)
	} else {
		txn = db.NewTransaction(true)
	}
	defer txn.Discard()
	n := 0
	key := func() []byte {
		n++
		k := []byte(fmt.Sprintf("%0*d", c.KeyLen, n))
		return k
	}
	accepted, squeezed := 0, 0
	full := false
	for _, sz := range c.Sizes {
		err := txn.Set(key(), make([]byte, sz))
		if err == badger.ErrTxnTooBig {
			full = true
			// squeeze smaller and smaller writes into the remaining headroom
			for s := sz - 1; s >= 0 && s > sz-400; s-- {
				if err := txn.Set(key(), make([]byte, s)); err == nil {
					accepted++
					squeezed++
				} else if err != badger.ErrTxnTooBig {
					return res, fmt.Errorf("Set of a %d-byte value: %v", s, err)
				}
			}
			break
		}
		if err != nil {
			return res, fmt.Errorf("Set of a %d-byte value: %v", sz, err)
		}
		accepted++
	}
	if managed {
		err = txn.CommitAt(c.CommitTs, nil)
	} else {
		err = txn.Commit()
	}
	if err == badger.ErrTxnTooBig {
		return res, fmt.Errorf("every one of the %d writes of the transaction was accepted by Set, but Commit (timestamp %d in managed mode, ~%d in normal mode) returned ErrTxnTooBig", accepted, c.CommitTs, c.Warmup+1)
	}
	if err != nil {
		return res, fmt.Errorf("Commit: %v", err)
	}
	rec.Add("writes_accepted", accepted)
	if full {
		res.Classes = append(res.Classes, "budget_exhausted")
	}
	if squeezed > 0 {
		res.Classes = append(res.Classes, "headroom_squeezed_byte_by_byte")
	}
	if managed && c.CommitTs >= 100 {
		res.Classes = append(res.Classes, "commit_ts_3_or_more_digits")
	}
	res.NonTrivial = full
	return res, nil
}

func TestC28_BatchBudget(t *testing.T) {
	core.Run(t, "C28", "batch_budget",
		"rapid-generated transactions that are filled right up to their size budget: writes of generated sizes until Set answers ErrTxnTooBig, then ever smaller writes (byte by byte) into the remaining headroom; memtable 8 KiB-1 MiB (batch limit 15% of it), values inline or behind pointers (threshold 16-1024, dynamic or static), key lengths 1-40; committed in managed mode at timestamps of 1 to 20 decimal digits, or in normal mode after 0-150 warm-up commits. Oracle: once every write was accepted, Commit does not return ErrTxnTooBig. Non-trivial = the budget was exhausted.",
		func(rt *rapid.T) c28bCase {
			var c c28bCase
			c.Spec = dbx.Gen(rt, dbx.GenCfg{AllowManaged: true, AllowEnc: true})
			c.Spec.InMemory = false
			c.Spec.Managed = rapid.IntRange(0, 2).Draw(rt, "managed2") > 0
			c.Spec.MemTableSize = rapid.SampledFrom([]int64{1 << 13, 1 << 14, 1 << 16, 1 << 20}).Draw(rt, "mt")
			if c.Spec.ValueThreshold > c.Spec.MemTableSize*15/100 {
				c.Spec.ValueThreshold = 64
			}
			c.CommitTs = rapid.SampledFrom([]uint64{1, 9, 10, 99, 100, 12345, 1 << 32, 1 << 53, math.MaxUint64 - 1}).Draw(rt, "cts")
			c.KeyLen = rapid.IntRange(1, 40).Draw(rt, "keylen")
			c.Warmup = rapid.SampledFrom([]int{0, 5, 12, 100, 150}).Draw(rt, "warmup")
			limit := int(c.Spec.MemTableSize * 15 / 100)
			for i, m := 0, rapid.IntRange(1, 60).Draw(rt, "nsizes"); i < m; i++ {
				c.Sizes = append(c.Sizes, rapid.IntRange(0, limit).Draw(rt, "size"))
			}
			c.Sizes = append(c.Sizes, limit) // certainly too big: the budget gets exhausted
			return c
		}, runC28b)
}
