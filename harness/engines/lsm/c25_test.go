package lsm

import (
	"bytes"
	"context"
	"encoding/binary"
	"fmt"
	"hash/fnv"
	"math"
	"runtime"
	"sort"
	"sync"
	"sync/atomic"
	"testing"

	badger "github.com/dgraph-io/badger/v4"
	"github.com/dgraph-io/badger/v4/pb"
	"github.com/dgraph-io/badger/v4/y"
	"github.com/dgraph-io/ristretto/v2/z"
	"pgregory.net/rapid"

	"verifharness/internal/core"
	"verifharness/internal/dbx"
	"verifharness/internal/evid"
)

// ---- C25: a Stream run emits one consistent snapshot, each key exactly once ------------------------

type streamCfg struct {
	NumGo   int
	Prefix  []byte
	Since   uint64
	Choose  int // 0: every key, 1/2: keys whose hash is even/odd
	Done    bool
	MaxSize uint64
	OnKey   func() // called from ChooseKey (producer goroutines), before the key is judged
}

func keyHash(k []byte) uint32 {
	h := fnv.New32a()
	h.Write(k)
	return h.Sum32()
}

func (c streamCfg) chosen(k []byte) bool {
	return c.Choose == 0 || int(keyHash(k)%2) == c.Choose-1
}

type streamOut struct {
	kvs       []*pb.KV // in Send order, done markers included
	sends     int
	overlap   bool // two Send calls overlapped
	streamIDs map[uint32]int
}

// runStream configures a stream, runs it and collects everything Send receives.
func runStream(st *badger.Stream, c streamCfg) (*streamOut, error) {
	st.NumGo = c.NumGo
	st.Prefix = c.Prefix
	st.SinceTs = c.Since
	if c.Choose != 0 || c.OnKey != nil {
		st.ChooseKey = func(item *badger.Item) bool {
			if c.OnKey != nil {
				c.OnKey()
			}
			return c.chosen(item.Key())
		}
	}
	if c.MaxSize > 0 {
		st.MaxSize = c.MaxSize
	}
	st.SendDoneMarkers(c.Done)
	out := &streamOut{streamIDs: map[uint32]int{}}
	var inSend atomic.Int32
	st.Send = func(buf *z.Buffer) error {
		if !inSend.CompareAndSwap(0, 1) {
			out.overlap = true
		}
		runtime.Gosched() // widen the window in which a second Send would overlap
		list, err := badger.BufferToKVList(buf)
		if err == nil {
			out.kvs = append(out.kvs, list.Kv...)
			out.sends++
		}
		inSend.Store(0)
		return err
	}
	err := st.Orchestrate(context.Background())
	return out, err
}

// checkStreamShape: per stream id keys ascend, versions of one key descend, the done marker (if
// requested) is the last KV of its stream and appears exactly once; every key belongs to one
// stream id and forms one contiguous run. Returns key -> its KVs.
func checkStreamShape(out *streamOut, c streamCfg) (map[string][]*pb.KV, error) {
	if out.overlap {
		return nil, fmt.Errorf("Send was called concurrently")
	}
	perKey := map[string][]*pb.KV{}
	lastKey := map[uint32][]byte{}
	done := map[uint32]bool{}
	closedKey := map[string]bool{}
	var cur string
	for _, kv := range out.kvs {
		if kv.StreamDone {
			if !c.Done {
				return nil, fmt.Errorf("done marker for stream %d although none were requested", kv.StreamId)
			}
			if done[kv.StreamId] {
				return nil, fmt.Errorf("second done marker for stream %d", kv.StreamId)
			}
			done[kv.StreamId] = true
			continue
		}
		if done[kv.StreamId] {
			return nil, fmt.Errorf("key %x of stream %d arrives after that stream's done marker", kv.Key, kv.StreamId)
		}
		out.streamIDs[kv.StreamId]++
		k := string(kv.Key)
		if k != cur {
			if closedKey[k] {
				return nil, fmt.Errorf("key %x is delivered twice (two separate runs)", kv.Key)
			}
			if cur != "" {
				closedKey[cur] = true
			}
			cur = k
		}
		if lk, ok := lastKey[kv.StreamId]; ok {
			if c := bytes.Compare(kv.Key, lk); c < 0 {
				return nil, fmt.Errorf("stream %d: key %x after %x (not ascending)", kv.StreamId, kv.Key, lk)
			}
		}
		lastKey[kv.StreamId] = kv.Key
		if l := perKey[k]; len(l) > 0 {
			if l[len(l)-1].StreamId != kv.StreamId {
				return nil, fmt.Errorf("key %x is delivered by two streams (%d and %d)", kv.Key, l[len(l)-1].StreamId, kv.StreamId)
			}
			if l[len(l)-1].Version <= kv.Version {
				return nil, fmt.Errorf("key %x: version %d after version %d (each version once, descending)", kv.Key, kv.Version, l[len(l)-1].Version)
			}
		}
		perKey[k] = append(perKey[k], kv)
	}
	if c.Done {
		for id := range out.streamIDs {
			if !done[id] {
				return nil, fmt.Errorf("stream %d delivered keys but no done marker", id)
			}
		}
	}
	return perKey, nil
}

func (in *Interp) streamCfgOf(op Op) streamCfg {
	c := streamCfg{NumGo: []int{1, 2, 3, 8, 16}[op.A%5]}
	if (op.A>>3)%3 == 0 {
		k := in.key(op.Key)
		c.Prefix = append([]byte{}, k[:1+op.B%len(k)]...)
	}
	if (op.A>>5)%3 == 0 && len(in.commits) > 0 {
		c.Since = in.commits[op.B%len(in.commits)].ts
	}
	c.Choose = (op.A >> 7) % 3
	c.Done = (op.A>>9)%2 == 1
	if (op.A>>10)%3 == 0 {
		c.MaxSize = 1 // every producer batch becomes its own Send
	}
	return c
}

// streamOp runs one quiescent Stream and compares it with (a) the reference model and (b) what an
// AllVersions iterator of a read transaction at the same timestamp shows.
func streamOp(in *Interp, op Op) error {
	c := in.streamCfgOf(op)
	rd, rts := in.newReader()
	if in.P.Spec.Managed && (op.A>>12)%2 == 1 && len(in.commits) > 0 {
		if ts := in.commits[(op.B>>3)%len(in.commits)].ts; ts >= in.discard && ts > 0 {
			rd.Discard()
			rd, rts = in.db.NewTransactionAt(ts, false), ts
		}
	}
	defer rd.Discard()
	var st *badger.Stream
	if in.P.Spec.Managed {
		st = in.db.NewStreamAt(rts)
	} else {
		st = in.db.NewStream()
	}
	out, err := runStream(st, c)
	if err != nil {
		return in.errf("Stream.Orchestrate: %v", err)
	}
	desc := fmt.Sprintf("Stream(NumGo=%d prefix=%x since=%d choose=%d done=%v maxsize=%d) at ts %d", c.NumGo, c.Prefix, c.Since, c.Choose, c.Done, c.MaxSize, rts)
	perKey, err := checkStreamShape(out, c)
	if err != nil {
		return in.errf("%s: %v", desc, err)
	}
	// (a) the reference model decides which keys appear and what their newest version is
	for _, k := range in.allKeys() {
		var want bool
		v := in.m.Visible(k, rts)
		if bytes.HasPrefix(k, c.Prefix) && c.chosen(k) && v != nil && v.Ts > c.Since {
			want = true
		}
		got := perKey[string(k)]
		switch {
		case want && len(got) == 0:
			return in.errf("%s: key %x (visible version %d) is missing from the stream", desc, k, v.Ts)
		case !want && len(got) > 0:
			return in.errf("%s: key %x@%d is delivered but a snapshot read does not show it (%s)", desc, k, got[0].Version, in.keyDump(k))
		case want:
			kv := got[0]
			var um byte
			if len(kv.UserMeta) > 0 {
				um = kv.UserMeta[0]
			}
			if kv.Version != v.Ts || !bytes.Equal(kv.Value, v.Val) || um != v.UserMeta || kv.ExpiresAt != v.ExpiresAt {
				return in.errf("%s: key %x: newest delivered version %d (value len %d, meta %x, expires %d), snapshot shows version %d (value len %d, meta %x, expires %d)",
					desc, k, kv.Version, len(kv.Value), um, kv.ExpiresAt, v.Ts, len(v.Val), v.UserMeta, v.ExpiresAt)
			}
		}
	}
	for k := range perKey {
		if _, ok := in.m.Keys[k]; !ok {
			return in.errf("%s: key %x was never written", desc, k)
		}
	}
	// (b) older versions: exactly what ToList makes of the snapshot's all-versions view
	want := map[string][][2]uint64{}
	it := rd.NewIterator(badger.IteratorOptions{AllVersions: true, Prefix: c.Prefix, SinceTs: c.Since, PrefetchValues: false})
	var curKey []byte
	stopped := false
	keep := in.keepN()
	for it.Rewind(); it.Valid(); it.Next() {
		item := it.Item()
		if !bytes.Equal(item.Key(), curKey) {
			curKey = item.KeyCopy(nil)
			stopped = !c.chosen(curKey)
		}
		if stopped {
			continue
		}
		if item.IsDeletedOrExpired() {
			stopped = true
			continue
		}
		want[string(curKey)] = append(want[string(curKey)], [2]uint64{item.Version(), uint64(item.ValueSize())})
		if keep == 1 || item.DiscardEarlierVersions() {
			stopped = true
		}
	}
	it.Close()
	multi := 0
	for k, l := range perKey {
		w := want[k]
		if len(w) != len(l) {
			return in.errf("%s: key %x: %d versions delivered, the snapshot's all-versions view yields %d", desc, []byte(k), len(l), len(w))
		}
		for i := range l {
			if l[i].Version != w[i][0] {
				return in.errf("%s: key %x: delivered version #%d is %d, the snapshot has %d", desc, []byte(k), i, l[i].Version, w[i][0])
			}
			mv := in.m.Newest([]byte(k), l[i].Version)
			if mv == nil || mv.Ts != l[i].Version || !bytes.Equal(mv.Val, l[i].Value) {
				return in.errf("%s: key %x@%d: delivered value (len %d) is not the written one", desc, []byte(k), l[i].Version, len(l[i].Value))
			}
		}
		if len(l) > 1 {
			multi++
		}
	}
	in.Cnt["streams"]++
	in.Cnt["stream_keys"] += len(perKey)
	if len(out.streamIDs) > 1 {
		in.Cnt["stream_multi_range"]++
	}
	if multi > 0 {
		in.Cnt["stream_multi_version_key"]++
	}
	if len(c.Prefix) > 0 {
		in.Cnt["stream_prefix"]++
	}
	if c.Since > 0 {
		in.Cnt["stream_since"]++
	}
	if c.Choose > 0 {
		in.Cnt["stream_choosekey"]++
	}
	if out.sends > 1 {
		in.Cnt["stream_multi_send"]++
	}
	return nil
}

func extSetup(kinds map[string]func(*Interp, Op) error) func(in *Interp) {
	return func(in *Interp) {
		in.Ext = kinds
		in.Cnt = map[string]int{}
	}
}

func cntClasses(in *Interp, res *core.Result, rec *evid.Rec) {
	var ks []string
	for k := range in.Cnt {
		ks = append(ks, k)
	}
	sort.Strings(ks)
	for _, k := range ks {
		if in.Cnt[k] > 0 {
			res.Classes = append(res.Classes, k)
			rec.Add(k, in.Cnt[k])
		}
	}
}

var wStream = map[string]int{"txn": 8, "fill": 6, "deepen": 3, "flush": 4, "compact": 5, "stream": 8, "l0shape": 2, "reopen": 1, "clock": 1, "begin": 1, "discardts": 1}

func streamGenCfg() GenCfg {
	return GenCfg{DB: dbx.GenCfg{AllowInMemory: true, AllowManaged: true, AllowEnc: true, KeepVersions: []int{1, 2, 3, 0}}, MinOps: 6, MaxOps: 40, Weights: wStream, TTL: true, Discard: true, BigValues: true}
}

func TestC25_StreamQuiescent(t *testing.T) {
	core.Run(t, "C25", "quiescent",
		"rapid-generated programs (options incl. managed/normal, in-memory, encryption, NumVersionsToKeep 1/2/3/unbounded; fills, flushes, compactions into several levels and tables, TTL entries, deletes, discard markers, re-opens) with Stream runs in between: NumGo in {1,2,3,8,16}, Prefix, SinceTs, ChooseKey (by key hash), done markers, MaxSize 1 (one Send per producer batch); managed mode: NewStreamAt at the newest or an older commit timestamp. Oracle: Send never overlaps; per stream id keys ascend, versions descend, done marker last and once; every key is delivered in one contiguous run by one stream; the set of delivered keys and each key's newest version/value/meta/expiry equal the reference model's snapshot read; older versions equal what the default KeyToList makes of an AllVersions iterator of a read transaction at the same timestamp, and carry the written values. Non-trivial = a stream delivered keys from >=2 ranges (stream ids).",
		func(rt *rapid.T) Program { return GenProgram(rt, streamGenCfg()) },
		func(p Program, rec *evid.Rec) (core.Result, error) {
			in, err := Run(p, extSetup(map[string]func(*Interp, Op) error{"stream": streamOp}))
			res := core.Result{Classes: classesOf(in.St, p), Excluded: in.St.Excluded}
			cntClasses(in, &res, rec)
			res.NonTrivial = in.Cnt["stream_multi_range"] > 0
			return res, err
		})
}

// ---- C25 concurrent part: commits race with the producers -------------------------------------------

type c25Conc struct {
	Prog    Program `json:"prog"`
	NumGo   int     `json:"numgo"`
	Mask    uint32  `json:"mask"`    // bit i: commit a new generation when the i-th producer starts
	Free    bool    `json:"free"`    // additionally a free-running writer goroutine
	Pad     int     `json:"pad"`     // value padding (pushes values over the threshold)
	Streams int     `json:"streams"` // stream runs
	// MaintAt > 0 (only without the free writer): when the producers have looked at this many keys,
	// a generation is committed, a newer reader comes and goes, the memtable is flushed and L0 is
	// compacted - ranges opened afterwards must still show the run's snapshot
	MaintAt int `json:"maintat,omitempty"`
}

func seqVal(seq uint64, pad int) []byte {
	v := make([]byte, 8+pad)
	binary.BigEndian.PutUint64(v, seq)
	for i := 8; i < len(v); i++ {
		v[i] = byte(seq) + byte(i)
	}
	return v
}

func runC25Conc(c c25Conc, rec *evid.Rec) (core.Result, error) {
	var res core.Result
	in := &Interp{P: c.Prog}
	if err := in.Open(); err != nil {
		return res, err
	}
	defer in.Close()
	if err := in.Exec(); err != nil {
		return res, err
	}
	in.dropAllTxns()
	db := in.db
	// tracked keys: at most 8, spread over the whole key space (one transaction must hold them all)
	keys := in.allKeys()
	if len(keys) > 8 {
		var sel [][]byte
		for i := 0; i < 8; i++ {
			sel = append(sel, keys[i*(len(keys)-1)/7])
		}
		keys = sel
	}
	managed := c.Prog.Spec.Managed
	var mu sync.Mutex
	seq := uint64(0)
	ts := in.m.MaxVersion() + 10
	commitGen := func() error {
		mu.Lock()
		defer mu.Unlock()
		seq++
		var txn *badger.Txn
		if managed {
			txn = db.NewTransactionAt(math.MaxUint64, true)
		} else {
			txn = db.NewTransaction(true)
		}
		defer txn.Discard()
		for _, k := range keys {
			if err := txn.Set(append([]byte{}, k...), seqVal(seq, c.Pad)); err != nil {
				return err
			}
		}
		if managed {
			ts++
			return txn.CommitAt(ts, nil)
		}
		return txn.Commit()
	}
	if err := commitGen(); err != nil {
		return res, fmt.Errorf("generation commit: %v", err)
	}
	mixed, multi := 0, 0
	var maintDone atomic.Int32
	for run := 0; run < c.Streams; run++ {
		if err := dbx.RelieveL0(db, 6); err != nil {
			return res, err
		}
		mu.Lock()
		startSeq, startTs := seq, ts
		mu.Unlock()
		var hits atomic.Int32
		var hookErr atomic.Value
		y.VerifSetPointFn(func(name string) {
			if name != "stream.producer.start" {
				return
			}
			i := hits.Add(1) - 1
			if c.Mask&(1<<uint(i%32)) != 0 {
				if err := commitGen(); err != nil {
					hookErr.Store(err)
				}
				runtime.Gosched()
			}
		})
		stop := make(chan struct{})
		var wg sync.WaitGroup
		if c.Free {
			wg.Add(1)
			go func() {
				defer wg.Done()
				for i := 0; i < 24; i++ { // bounded: no compactor runs during a stream, L0 must not reach its stall limit
					select {
					case <-stop:
						return
					default:
					}
					if err := commitGen(); err != nil {
						hookErr.Store(err)
						return
					}
				}
			}()
		}
		var st *badger.Stream
		if managed {
			st = db.NewStreamAt(startTs)
		} else {
			st = db.NewStream()
		}
		var keysSeen atomic.Int32
		var maintMu sync.Mutex
		scfg := streamCfg{NumGo: c.NumGo, Done: run%2 == 1}
		if c.MaintAt > 0 && !c.Free {
			scfg.OnKey = func() {
				if int(keysSeen.Add(1)) != c.MaintAt {
					return
				}
				maintMu.Lock()
				defer maintMu.Unlock()
				if err := commitGen(); err != nil {
					hookErr.Store(err)
					return
				}
				if !managed {
					_ = db.View(func(txn *badger.Txn) error { return nil }) // a newer reader comes and goes
				}
				mu.Lock() // no generation commit while the memtable is rotated
				_, err := dbx.Flush(db)
				mu.Unlock()
				if err == nil {
					err, _ = db.VerifCompact(1, badger.VerifPrio{Level: 0, Score: 2, Adjusted: 2})
				}
				if err != nil {
					hookErr.Store(err)
				}
				maintDone.Add(1)
			}
		}
		out, err := runStream(st, scfg)
		close(stop)
		wg.Wait()
		y.VerifSetPointFn(nil)
		if err != nil {
			return res, fmt.Errorf("Stream.Orchestrate: %v", err)
		}
		if e := hookErr.Load(); e != nil {
			return res, fmt.Errorf("concurrent commit failed: %v", e)
		}
		perKey, err := checkStreamShape(out, streamCfg{Done: run%2 == 1})
		if err != nil {
			return res, fmt.Errorf("stream run %d: %v", run, err)
		}
		mu.Lock()
		endSeq := seq
		mu.Unlock()
		seen := map[uint64][]string{}
		for _, k := range keys {
			l := perKey[string(k)]
			if len(l) == 0 {
				return res, fmt.Errorf("stream run %d (NumGo %d): key %x is missing although every generation writes it", run, c.NumGo, k)
			}
			if len(l[0].Value) < 8 {
				return res, fmt.Errorf("stream run %d: key %x@%d has a %d-byte value, not a generation value", run, k, l[0].Version, len(l[0].Value))
			}
			s := binary.BigEndian.Uint64(l[0].Value)
			if !bytes.Equal(l[0].Value, seqVal(s, c.Pad)) {
				return res, fmt.Errorf("stream run %d: key %x@%d: value is not the one written by generation %d", run, k, l[0].Version, s)
			}
			seen[s] = append(seen[s], fmt.Sprintf("%x", k))
		}
		if len(seen) > 1 {
			var gens []uint64
			for s := range seen {
				gens = append(gens, s)
			}
			sort.Slice(gens, func(i, j int) bool { return gens[i] < gens[j] })
			return res, fmt.Errorf("stream run %d (NumGo %d, %d stream ids, generations committed during the run: %d..%d): the delivered keys come from different snapshots: generation %d for keys %v but generation %d for keys %v (every generation writes all keys in ONE transaction)",
				run, c.NumGo, len(out.streamIDs), startSeq+1, endSeq, gens[0], seen[gens[0]], gens[len(gens)-1], seen[gens[len(gens)-1]])
		}
		for s := range seen {
			if s < startSeq || s > endSeq {
				return res, fmt.Errorf("stream run %d: delivered generation %d, outside of what was committed around the run [%d,%d]", run, s, startSeq, endSeq)
			}
			if managed && s != startSeq {
				return res, fmt.Errorf("stream run %d: NewStreamAt(%d) delivered generation %d, the snapshot holds %d", run, startTs, s, startSeq)
			}
		}
		if endSeq > startSeq {
			mixed++
		}
		if len(out.streamIDs) > 1 {
			multi++
		}
	}
	rec.Add("stream_runs", c.Streams)
	rec.Add("runs_with_concurrent_commits", mixed)
	rec.Add("runs_with_several_ranges", multi)
	res.Classes = classesOf(in.St, c.Prog)
	if multi > 0 {
		res.Classes = append(res.Classes, "several_ranges")
	}
	if mixed > 0 {
		res.Classes = append(res.Classes, "commits_during_run")
	}
	if c.Free {
		res.Classes = append(res.Classes, "free_running_writer")
	}
	if maintDone.Load() > 0 {
		res.Classes = append(res.Classes, "flush_and_compaction_during_run")
	}
	res.NonTrivial = mixed > 0 && multi > 0
	return res, nil
}

func genC25Conc(rt *rapid.T) c25Conc {
	var c c25Conc
	c.Prog = GenProgram(rt, GenCfg{DB: dbx.GenCfg{AllowManaged: true, AllowEnc: true, KeepVersions: []int{1, 2, 0}}, MinOps: 4, MaxOps: 16, MinKeys: 4, MaxKeys: 12, BigValues: true,
		Weights: map[string]int{"fill": 6, "deepen": 4, "flush": 4, "compact": 4, "txn": 2},
		FixSpec: func(s *dbx.Spec) {
			s.InMemory = false
			s.BaseTableSize = 1 << 11
			if s.MemTableSize < 1<<15 {
				s.MemTableSize = 1 << 15 // a generation transaction (<= 8 keys) must fit into one request
			}
		}})
	c.NumGo = rapid.SampledFrom([]int{2, 2, 3, 4, 8, 16}).Draw(rt, "numgo")
	c.Mask = rapid.Uint32().Draw(rt, "mask") | 2
	c.Free = rapid.IntRange(0, 2).Draw(rt, "free") == 0
	c.Pad = rapid.SampledFrom([]int{0, 0, 40, 300}).Draw(rt, "pad")
	c.Streams = rapid.IntRange(1, 3).Draw(rt, "streams")
	if !c.Free && rapid.Bool().Draw(rt, "maint") {
		c.MaintAt = rapid.IntRange(1, 12).Draw(rt, "maintat")
	}
	return c
}

func TestC25_StreamConcurrent(t *testing.T) {
	core.Run(t, "C25", "concurrent",
		"a generated layout (fills pushed into several tables/levels) whose every key is then rewritten by 'generation' transactions: generation n writes value n to ALL keys in one transaction. Stream runs (NumGo 2..16) race with generation commits issued from the stream.producer.start hook of selected producers (generated bit mask - the harness owns where the commits fall between the producers' snapshot acquisition) and optionally with a free-running writer goroutine, or with a generation commit + newer reader + memtable flush + L0 compaction performed from ChooseKey after a generated number of keys (ranges opened afterwards must still show the snapshot). Oracle (schedule independent): all delivered keys carry the SAME generation (one snapshot), that generation was current at some moment of the run (managed NewStreamAt: exactly the one at the chosen timestamp), each key once, Send never concurrent. Non-trivial = >=1 generation committed during a run that delivered >=2 ranges.",
		genC25Conc, runC25Conc)
}
