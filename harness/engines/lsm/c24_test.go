package lsm

import (
	"bytes"
	"fmt"
	"math"
	"os"
	"runtime"
	"sync"
	"sync/atomic"
	"testing"

	badger "github.com/dgraph-io/badger/v4"
	"github.com/dgraph-io/badger/v4/y"
	"pgregory.net/rapid"

	"verifharness/internal/core"
	"verifharness/internal/dbx"
	"verifharness/internal/evid"
)

// ---- C24: Backup and Load round-trip the database, including incremental chains -------------------

// backupChain is the target of an incremental chain: every backup of the chain is loaded into it.
type backupChain struct {
	db    *badger.DB
	dir   string
	since uint64
	steps int
	// commits is the number of source commits the chain has seen (managed mode: a commit at or
	// below the version the last backup returned makes an incremental chain meaningless)
	commits int
	// lost: keys the chain already lost to the known finding (key -> stale version the target shows)
	lost map[string]uint64
	// maxLoaded is the largest version any earlier backup of the chain returned
	maxLoaded uint64
	restarts  int
}

func (c *backupChain) close() {
	if c.db != nil {
		c.db.Close()
		c.db = nil
	}
	if c.dir != "" {
		os.RemoveAll(c.dir)
	}
}

func doBackup(db *badger.DB, managed bool, w *bytes.Buffer, since uint64, numGo int) (uint64, error) {
	var st *badger.Stream
	if managed {
		st = db.NewStreamAt(math.MaxUint64)
	} else {
		st = db.NewStream()
	}
	if numGo > 0 {
		st.NumGo = numGo
	}
	st.SinceTs = since
	st.LogPrefix = "verif.Backup"
	return st.Backup(w, since)
}

func reader(db *badger.DB, managed bool) *badger.Txn {
	if managed {
		return db.NewTransactionAt(math.MaxUint64, false)
	}
	return db.NewTransaction(false)
}

type verRec struct {
	ver       uint64
	dead      bool
	val       []byte
	meta      byte
	expiresAt uint64
}

// allVersions reads every version of every key the reader sees.
func allVersionsOf(txn *badger.Txn) (map[string][]verRec, error) {
	out := map[string][]verRec{}
	it := txn.NewIterator(badger.IteratorOptions{AllVersions: true, PrefetchValues: false})
	defer it.Close()
	for it.Rewind(); it.Valid(); it.Next() {
		item := it.Item()
		r := verRec{ver: item.Version(), dead: item.IsDeletedOrExpired(), meta: item.UserMeta(), expiresAt: item.ExpiresAt()}
		if !r.dead {
			v, err := item.ValueCopy(nil)
			if err != nil {
				return nil, fmt.Errorf("value of %x@%d: %v", item.Key(), item.Version(), err)
			}
			r.val = v
		}
		if item.DiscardEarlierVersions() {
			r.meta |= 0 // the marker itself is not part of the round-trip promise beyond its effect (see expected())
		}
		out[string(item.KeyCopy(nil))] = append(out[string(item.Key())], r)
	}
	return out, nil
}

// expectedAfterFullLoad: what a full backup carries per key: the versions from the newest down to
// and including the first deleted/expired one; a discard-earlier marker ends the walk and adds a
// delete marker one version below it.
func expectedAfterFullLoad(txn *badger.Txn) (map[string][]verRec, error) {
	out := map[string][]verRec{}
	it := txn.NewIterator(badger.IteratorOptions{AllVersions: true, PrefetchValues: false})
	defer it.Close()
	var cur []byte
	stopped := false
	for it.Rewind(); it.Valid(); it.Next() {
		item := it.Item()
		if !bytes.Equal(item.Key(), cur) {
			cur = item.KeyCopy(nil)
			stopped = false
		}
		if stopped {
			continue
		}
		r := verRec{ver: item.Version(), dead: item.IsDeletedOrExpired(), meta: item.UserMeta(), expiresAt: item.ExpiresAt()}
		if !r.dead {
			v, err := item.ValueCopy(nil)
			if err != nil {
				return nil, fmt.Errorf("value of %x@%d: %v", item.Key(), item.Version(), err)
			}
			r.val = v
		}
		out[string(cur)] = append(out[string(cur)], r)
		switch {
		case item.DiscardEarlierVersions():
			out[string(cur)] = append(out[string(cur)], verRec{ver: item.Version() - 1, dead: true})
			stopped = true
		case r.dead:
			stopped = true
		}
	}
	return out, nil
}

// compareVisible: every key's visible value, user meta, expiry and version in dst equal the model's.
func (in *Interp) compareVisible(desc string, dst *badger.DB, excuse func(k []byte, item *badger.Item) bool) error {
	txn := reader(dst, in.P.Spec.Managed)
	defer txn.Discard()
	seen := map[string]bool{}
	it := txn.NewIterator(badger.DefaultIteratorOptions)
	for it.Rewind(); it.Valid(); it.Next() {
		seen[string(it.Item().KeyCopy(nil))] = true
	}
	it.Close()
	for _, k := range in.allKeys() {
		want := in.m.Visible(k, math.MaxUint64)
		item, err := txn.Get(k)
		switch {
		case err == badger.ErrKeyNotFound:
			if want != nil {
				return in.errf("%s: key %x is missing in the loaded database, the source shows version %d (value len %d)", desc, k, want.Ts, len(want.Val))
			}
			if seen[string(k)] {
				return in.errf("%s: loaded database: iteration yields key %x but Get does not", desc, k)
			}
			continue
		case err != nil:
			return in.errf("%s: Get(%x) in the loaded database: %v", desc, k, err)
		}
		if want == nil {
			if excuse != nil && excuse(k, item) {
				delete(seen, string(k))
				continue
			}
			return in.errf("%s: key %x@%d is visible in the loaded database but not in the source (%s)", desc, k, item.Version(), in.keyDump(k))
		}
		got, err := item.ValueCopy(nil)
		if err != nil {
			return in.errf("%s: value of %x in the loaded database: %v", desc, k, err)
		}
		if item.Version() != want.Ts || !bytes.Equal(got, want.Val) || item.UserMeta() != want.UserMeta || item.ExpiresAt() != want.ExpiresAt {
			return in.errf("%s: key %x: loaded database has version %d (value len %d, meta %x, expires %d), the source version %d (value len %d, meta %x, expires %d)",
				desc, k, item.Version(), len(got), item.UserMeta(), item.ExpiresAt(), want.Ts, len(want.Val), want.UserMeta, want.ExpiresAt)
		}
		if !seen[string(k)] {
			return in.errf("%s: loaded database: Get yields key %x but iteration does not", desc, k)
		}
		delete(seen, string(k))
	}
	for k := range seen {
		if in.m.Visible([]byte(k), math.MaxUint64) == nil {
			return in.errf("%s: loaded database iterates key %x which the source does not show", desc, []byte(k))
		}
	}
	return nil
}

func backupOpFor(chain *backupChain) func(in *Interp, op Op) error {
	return func(in *Interp, op Op) error {
		managed := in.P.Spec.Managed
		numGo := []int{0, 1, 2, 5}[op.B%4]
		maxPending := 1 + (op.B>>2)%16
		full := op.A%3 == 0
		var buf bytes.Buffer
		if full {
			got, err := doBackup(in.db, managed, &buf, 0, numGo)
			if err != nil {
				return in.errf("full Backup: %v", err)
			}
			if mv := in.m.MaxVersion(); got > mv {
				return in.errf("full Backup returned version %d, the newest commit is %d", got, mv)
			}
			dir := core.Scratch("load")
			defer os.RemoveAll(dir)
			dst, err := in.P.Spec.Open(dir, nil)
			if err != nil {
				return in.errf("open load target: %v", err)
			}
			defer dst.Close()
			if err := dst.Load(bytes.NewReader(buf.Bytes()), maxPending); err != nil {
				return in.errf("Load of a full backup (%d bytes): %v", buf.Len(), err)
			}
			desc := fmt.Sprintf("full backup (NumGo %d, %d bytes) loaded with %d pending writes", numGo, buf.Len(), maxPending)
			if err := in.compareVisible(desc, dst, nil); err != nil {
				return err
			}
			in.Cnt["full_backups"]++
			if in.keepN() > 1 {
				src := reader(in.db, managed)
				want, err := expectedAfterFullLoad(src)
				src.Discard()
				if err != nil {
					return in.errf("%s: reading the source: %v", desc, err)
				}
				dt := reader(dst, managed)
				got, err := allVersionsOf(dt)
				dt.Discard()
				if err != nil {
					return in.errf("%s: reading the loaded database: %v", desc, err)
				}
				multi := false
				for k, wl := range want {
					gl := got[k]
					if len(gl) != len(wl) {
						return in.errf("%s: key %x has %d versions in the loaded database, the backup rule (all versions down to the first delete/expired/discard marker) gives %d of the source's (%s)", desc, []byte(k), len(gl), len(wl), in.keyDump([]byte(k)))
					}
					for i := range wl {
						g, w := gl[i], wl[i]
						if g.ver != w.ver || g.dead != w.dead || (!w.dead && (!bytes.Equal(g.val, w.val) || g.meta != w.meta || g.expiresAt != w.expiresAt)) {
							return in.errf("%s: key %x version #%d: loaded %d dead=%v len=%d meta=%x exp=%d, source %d dead=%v len=%d meta=%x exp=%d", desc, []byte(k), i,
								g.ver, g.dead, len(g.val), g.meta, g.expiresAt, w.ver, w.dead, len(w.val), w.meta, w.expiresAt)
						}
					}
					if len(wl) > 1 {
						multi = true
					}
				}
				for k := range got {
					if _, ok := want[k]; !ok {
						return in.errf("%s: key %x exists in the loaded database only", desc, []byte(k))
					}
				}
				if multi {
					in.Cnt["full_backup_multiversion"]++
				}
			}
			return nil
		}
		// incremental chain
		if chain.restarts != in.TsRestarts {
			// the source restarted its timestamps after a re-open (its newest versions were deletes
			// that compaction had dropped): later commits reuse versions the chain has seen
			chain.close()
			*chain = backupChain{restarts: in.TsRestarts}
			in.Cnt["chain_restarted_timestamps_restarted"]++
		}
		for _, cr := range in.commits[chain.commits:] {
			if cr.ts <= chain.since {
				// managed mode only: the application committed at or below the version the previous
				// backup returned; an incremental backup cannot carry that. Start a new chain.
				chain.close()
				*chain = backupChain{restarts: in.TsRestarts}
				in.Cnt["chain_restarted_commit_below_since"]++
				break
			}
		}
		chain.commits = len(in.commits)
		got, err := doBackup(in.db, managed, &buf, chain.since, numGo)
		if err != nil {
			return in.errf("incremental Backup(since %d): %v", chain.since, err)
		}
		if chain.db == nil {
			chain.dir = core.Scratch("chain")
			dst, err := in.P.Spec.Open(chain.dir, nil)
			if err != nil {
				return in.errf("open chain target: %v", err)
			}
			chain.db = dst
		}
		if err := chain.db.Load(bytes.NewReader(buf.Bytes()), maxPending); err != nil {
			return in.errf("Load of incremental backup #%d (since %d, %d bytes): %v", chain.steps, chain.since, buf.Len(), err)
		}
		desc := fmt.Sprintf("incremental chain step %d (since %d -> returned %d, NumGo %d, %d bytes)", chain.steps, chain.since, got, numGo, buf.Len())
		chain.steps++
		if buf.Len() > 0 && chain.steps > 1 {
			in.Cnt["incremental_nonempty"]++
		}
		prevSince, prevMax := chain.since, chain.maxLoaded
		if got > chain.maxLoaded {
			chain.maxLoaded = got
		}
		chain.since = got // "each taken with the version returned by the previous one"
		in.Cnt["incremental_backups"]++
		// Known finding incremental-backup-misses-compacted-delete: the key was deleted (or expired)
		// after the previous backup of the chain and a compaction of the SOURCE dropped the marker
		// together with the older versions before this backup ran, so the backup carries nothing
		// for the key and the chain's database keeps the older version. Exactly that shape is
		// excused: the target shows a version an earlier backup of the chain carried, the model's newest version is
		// dead and newer than the previous backup, and the source no longer stores any version of
		// the key above the previous backup's version.
		src := reader(in.db, managed)
		defer src.Discard()
		excuse := func(k []byte, item *badger.Item) bool {
			if in.Strict {
				return false
			}
			if v, ok := chain.lost[string(k)]; ok && v == item.Version() {
				return true // still the stale version an earlier step of this chain was excused for
			}
			nv := in.m.Newest(k, math.MaxUint64)
			if nv == nil || !in.m.Dead(*nv) || nv.Ts <= prevSince || item.Version() > prevMax {
				return false
			}
			it := src.NewKeyIterator(k, badger.IteratorOptions{AllVersions: true, SinceTs: prevSince})
			defer it.Close()
			it.Rewind()
			if it.Valid() {
				return false // the source still has the marker: the backup had to carry it
			}
			in.St.Excluded++
			if chain.lost == nil {
				chain.lost = map[string]uint64{}
			}
			chain.lost[string(k)] = item.Version()
			return true
		}
		return in.compareVisible(desc, chain.db, excuse)
	}
}

var wBackup = map[string]int{"txn": 10, "fill": 4, "deepen": 2, "flush": 4, "compact": 5, "backup": 8, "l0shape": 1, "reopen": 1, "clock": 2, "discardts": 1, "delsweep": 3}

// TestKF_C24Strict replays a saved program with the known-finding excuse off.
func TestKF_C24Strict(t *testing.T) {
	if !core.Replaying() {
		t.Skip("witness runner: replay only")
	}
	c24Strict = true
	defer func() { c24Strict = false }()
	TestC24_BackupLoad(t)
}

var c24Strict = os.Getenv("VERIF_STRICT") != ""

func TestC24_BackupLoad(t *testing.T) {
	core.Run(t, "C24", "roundtrip",
		"rapid-generated programs (managed/normal, encryption, compression, NumVersionsToKeep 1/2/3/unbounded; transactions with user meta, TTLs, deletes, discard-earlier markers; flushes, compactions, clock advances, re-opens) with Backup operations in between: a FULL backup (Stream.Backup, NumGo 1/2/5/default) is loaded (DB.Load, 1..16 pending writes) into a fresh database; an INCREMENTAL backup taken with the version the previous one returned is loaded into the chain's database. Oracle: after every load each key's visible value, version, user meta and expiry in the target equal the reference model of the source (Get and iteration agree); with NumVersionsToKeep > 1 a full load carries per key exactly the source's versions down to the first delete/expired/discard marker (discard marker => delete marker one version below). Non-trivial = a chain of >=2 incremental backups with new data, or a full backup of a multi-version key.",
		func(rt *rapid.T) Program {
			return GenProgram(rt, GenCfg{DB: dbx.GenCfg{AllowManaged: true, AllowEnc: true, KeepVersions: []int{1, 2, 3, 0}}, MinOps: 6, MaxOps: 40, Weights: wBackup, TTL: true, Discard: true, BigValues: true,
				FixSpec: func(s *dbx.Spec) { s.InMemory = false }})
		},
		func(p Program, rec *evid.Rec) (core.Result, error) {
			chain := &backupChain{}
			defer chain.close()
			setup := extSetup(map[string]func(*Interp, Op) error{"backup": backupOpFor(chain)})
			in, err := Run(p, func(in *Interp) { setup(in); in.Strict = c24Strict })
			res := core.Result{Classes: classesOf(in.St, p), Excluded: in.St.Excluded}
			cntClasses(in, &res, rec)
			res.NonTrivial = in.Cnt["incremental_nonempty"] > 0 || in.Cnt["full_backup_multiversion"] > 0
			return res, err
		})
}

// ---- C24 concurrent part: generation commits race with the backups of a chain --------------------

func runC24Conc(c c25Conc, rec *evid.Rec) (core.Result, error) {
	var res core.Result
	in := &Interp{P: c.Prog}
	if err := in.Open(); err != nil {
		return res, err
	}
	defer in.Close()
	if err := in.Exec(); err != nil {
		return res, err
	}
	in.dropAllTxns()
	db := in.db
	managed := c.Prog.Spec.Managed
	keys := in.allKeys()
	if len(keys) > 8 {
		var sel [][]byte
		for i := 0; i < 8; i++ {
			sel = append(sel, keys[i*(len(keys)-1)/7])
		}
		keys = sel
	}
	var mu sync.Mutex
	seq := uint64(0)
	ts := in.m.MaxVersion() + 10
	commitGen := func() error {
		mu.Lock()
		defer mu.Unlock()
		seq++
		var txn *badger.Txn
		if managed {
			txn = db.NewTransactionAt(math.MaxUint64, true)
		} else {
			txn = db.NewTransaction(true)
		}
		defer txn.Discard()
		for _, k := range keys {
			if err := txn.Set(append([]byte{}, k...), seqVal(seq, c.Pad)); err != nil {
				return err
			}
		}
		if managed {
			ts++
			return txn.CommitAt(ts, nil)
		}
		return txn.Commit()
	}
	if err := commitGen(); err != nil {
		return res, fmt.Errorf("generation commit: %v", err)
	}
	chain := &backupChain{dir: core.Scratch("chain")}
	defer chain.close()
	dst, err := c.Prog.Spec.Open(chain.dir, nil)
	if err != nil {
		return res, err
	}
	chain.db = dst
	during := 0
	// schedule: per stream run an optional quiescent backup first (then the racing backup finds
	// nothing new in its snapshot: an EMPTY incremental backup with a commit landing during it), then
	// the backup that races with generation commits; a final quiescent backup ends the chain
	type step struct{ racing bool }
	var steps []step
	for run := 0; run < c.Streams; run++ {
		if c.Mask&(1<<uint(16+run)) != 0 {
			steps = append(steps, step{false})
		}
		steps = append(steps, step{true})
	}
	steps = append(steps, step{false})
	emptyRacing := 0
	for run, stp := range steps {
		if err := dbx.RelieveL0(db, 6); err != nil {
			return res, err
		}
		last := !stp.racing
		var hits atomic.Int32
		var hookErr atomic.Value
		before := seq
		if !last {
			y.VerifSetPointFn(func(name string) {
				if name != "stream.producer.start" {
					return
				}
				i := hits.Add(1) - 1
				if c.Mask&(1<<uint(i%32)) != 0 {
					if err := commitGen(); err != nil {
						hookErr.Store(err)
					}
					runtime.Gosched()
				}
			})
		}
		var buf bytes.Buffer
		var st *badger.Stream
		if managed {
			mu.Lock()
			st = db.NewStreamAt(ts)
			mu.Unlock()
		} else {
			st = db.NewStream()
		}
		st.NumGo = c.NumGo
		st.SinceTs = chain.since
		got, err := st.Backup(&buf, chain.since)
		y.VerifSetPointFn(nil)
		if err != nil {
			return res, fmt.Errorf("backup %d (since %d): %v", run, chain.since, err)
		}
		if e := hookErr.Load(); e != nil {
			return res, fmt.Errorf("concurrent commit failed: %v", e)
		}
		if seq > before {
			during++
			if buf.Len() == 0 {
				emptyRacing++
			}
		}
		if err := chain.db.Load(bytes.NewReader(buf.Bytes()), 4); err != nil {
			return res, fmt.Errorf("load of backup %d: %v", run, err)
		}
		if got > 0 {
			chain.since = got
		}
	}
	// final visible state of the tracked keys: the last generation, for every key
	txn := reader(chain.db, managed)
	defer txn.Discard()
	for _, k := range keys {
		item, err := txn.Get(k)
		if err != nil {
			return res, fmt.Errorf("after the chain: Get(%x) in the loaded database: %v", k, err)
		}
		v, _ := item.ValueCopy(nil)
		if !bytes.Equal(v, seqVal(seq, c.Pad)) {
			var g uint64
			if len(v) >= 8 {
				g = uint64(v[7]) | uint64(v[6])<<8 | uint64(v[5])<<16
			}
			return res, fmt.Errorf("after a chain of %d incremental backups (NumGo %d; generations were committed while %d of them ran; the last one ran on the quiescent source): key %x in the loaded database holds generation %d (version %d), the source holds generation %d for every key", len(steps), c.NumGo, during, k, g, item.Version(), seq)
		}
	}
	rec.Add("backups", len(steps))
	rec.Add("empty_backups_with_a_commit_during_them", emptyRacing)
	if emptyRacing > 0 {
		res.Classes = append(res.Classes, "empty_backup_raced_by_commit")
	}
	rec.Add("backups_with_concurrent_commits", during)
	res.Classes = classesOf(in.St, c.Prog)
	if during > 0 {
		res.Classes = append(res.Classes, "commits_during_backup")
	}
	res.NonTrivial = during > 0 && in.St.TablesMax >= 2
	return res, nil
}

func TestC24_BackupConcurrent(t *testing.T) {
	core.Run(t, "C24", "concurrent",
		"a generated multi-table layout whose tracked keys (<= 8, spread over the key space) are rewritten by generation transactions (generation n = value n on ALL tracked keys in one transaction); a chain of 1-3 incremental backups (NumGo 2..16, since = version returned by the previous backup; optionally preceded by a quiescent backup so that the racing one is EMPTY) runs while generations are committed from the stream.producer.start hook of selected producers, each backup is loaded into the chain's database; a last backup is taken on the quiescent source and loaded. Oracle: the loaded database shows the last generation for every tracked key. Non-trivial = generations were committed during a backup of a source with >=2 tables.",
		func(rt *rapid.T) c25Conc {
			c := genC25Conc(rt)
			c.Free = false
			return c
		}, runC24Conc)
}
