package lsm

import (
	"bytes"
	"encoding/binary"
	"errors"
	"fmt"
	"os"
	"path/filepath"
	"strings"
	"testing"
	"time"

	badger "github.com/dgraph-io/badger/v4"
	"pgregory.net/rapid"

	"verifharness/internal/core"
	"verifharness/internal/dbx"
	"verifharness/internal/evid"
)

// ---- C23: encryption at rest is transparent and keeps plaintext off disk ---------------------------

type c23State struct {
	ivSeen  map[string]string // data key id + IV -> where it was seen
	logSeen map[string]string // data key id + base IV of a log file -> file name
	keyIDs  map[uint64]bool
	scans   int
	found   int // plaintext hits (must stay 0 with encryption; must be > 0 in the unencrypted control)
	wrong   int
	rotated int
	blocks  int
}

func markerKeys(n int) [][]byte {
	var out [][]byte
	for i := 0; i < n; i++ {
		out = append(out, []byte(fmt.Sprintf("Kq%02dzW#marker", i)))
	}
	return out
}

// scanPlaintext looks for every user key and every value of >= 8 bytes in every file of the directory.
func (in *Interp) scanPlaintext(st *c23State, when string) error {
	ents, err := os.ReadDir(in.dir)
	if err != nil {
		return in.errf("scan: %v", err)
	}
	var needles [][]byte
	var what []string
	for _, k := range in.P.Keys {
		needles = append(needles, k)
		what = append(what, fmt.Sprintf("user key %q", k))
	}
	for k, vs := range in.m.Keys {
		for _, v := range vs {
			if len(v.Val) >= 8 {
				needles = append(needles, v.Val)
				what = append(what, fmt.Sprintf("the %d-byte value of %q@%d", len(v.Val), k, v.Ts))
			}
		}
	}
	st.scans++
	for _, e := range ents {
		b, err := os.ReadFile(filepath.Join(in.dir, e.Name()))
		if err != nil {
			continue // removed meanwhile by a background flush
		}
		b = bytes.TrimRight(b, "\x00")
		for i, n := range needles {
			if bytes.Contains(b, n) {
				st.found++
				if in.P.Spec.EncKeyLen > 0 {
					return in.errf("%s: file %s contains %s in plaintext although an encryption key is configured", when, e.Name(), what[i])
				}
			}
		}
	}
	return nil
}

// ivCensus: no two encrypted blocks / indexes / log files share (data key, IV).
func (in *Interp) ivCensus(st *c23State) error {
	if in.P.Spec.EncKeyLen == 0 {
		return nil
	}
	zero := make([]byte, 16)
	note := func(keyID uint64, iv []byte, where string) error {
		if bytes.Equal(iv, zero[:len(iv)]) {
			return in.errf("%s has an all-zero IV", where)
		}
		k := fmt.Sprintf("%d/%x", keyID, iv)
		if prev, ok := st.ivSeen[k]; ok && prev != where {
			return in.errf("%s and %s are encrypted with the same data key (id %d) and the same IV %x", prev, where, keyID, iv)
		}
		st.ivSeen[k] = where
		st.keyIDs[keyID] = true
		return nil
	}
	for id, t := range in.db.VerifTableIVs() {
		if t.KeyID == 0 {
			return in.errf("table %d is not encrypted (no data key) although an encryption key is configured", id)
		}
		for i, iv := range t.Blocks {
			st.blocks++
			if err := note(t.KeyID, iv, fmt.Sprintf("table %d block %d", id, i)); err != nil {
				return err
			}
		}
		if t.Index != nil {
			if err := note(t.KeyID, t.Index, fmt.Sprintf("table %d index", id)); err != nil {
				return err
			}
		}
	}
	ents, _ := os.ReadDir(in.dir)
	for _, e := range ents {
		if !strings.HasSuffix(e.Name(), ".vlog") && !strings.HasSuffix(e.Name(), ".mem") {
			continue
		}
		f, err := os.Open(filepath.Join(in.dir, e.Name()))
		if err != nil {
			continue
		}
		hdr := make([]byte, 20)
		n, _ := f.ReadAt(hdr, 0)
		fi, _ := f.Stat()
		f.Close()
		if n < 20 {
			continue
		}
		keyID := binary.BigEndian.Uint64(hdr[:8])
		if keyID == 0 {
			return in.errf("log file %s carries no data key id although an encryption key is configured", e.Name())
		}
		where := fmt.Sprintf("log file %s (created %d)", e.Name(), fi.ModTime().UnixNano()/int64(time.Hour))
		k := fmt.Sprintf("%d/%x", keyID, hdr[8:20])
		if prev, ok := st.logSeen[k]; ok && !strings.HasPrefix(prev, "log file "+e.Name()) {
			return in.errf("%s and %s share data key %d and base IV %x", prev, where, keyID, hdr[8:20])
		}
		st.logSeen[k] = where
		st.keyIDs[keyID] = true
	}
	return nil
}

func otherKey(s dbx.Spec, variant int) []byte {
	k := dbx.AltEncKey
	if s.AltKey {
		k = dbx.EncKey
	}
	n := s.EncKeyLen
	if variant%3 == 1 { // a key of another valid length
		n = map[int]int{16: 24, 24: 32, 32: 16}[n]
	}
	return k[:n]
}

func TestC23_Encryption(t *testing.T) {
	core.Run(t, "C23", "encryption",
		"rapid-generated programs on distinctive 14-byte user keys and pseudo-random values (transactions, flushes, compactions, value-log GC, DropAll/DropPrefix (table ids restart), re-opens) with a 16/24/32-byte master key, data-key rotation per file on/off, compression off (plaintext would be recognisable). After every maintenance step and while the store is closed: (1) every file of the directory is searched for every user key and every value >= 8 bytes; (2) IV census: no two table blocks, table indexes or log files ever share (data key id, IV), none is all-zero, every table and log file carries a data key id. While closed: (3) Open with a different master key (same or different length) must fail with ErrEncryptionKeyMismatch and leave every file byte-identical; (4) master-key rotation as the rotate command does it (OpenKeyRegistry read-only with the old key + WriteKeyRegistry with the new one), after which the new key opens everything and the old one is rejected. All reads are compared with the reference model throughout (transparency, readability across data-key and master-key rotation). Control: 1 case in 8 runs unencrypted and the same scanner must find plaintext there. Non-trivial = >=2 scans found nothing on an encrypted store with >=1 table and a wrong-key open or a rotation was exercised.",
		func(rt *rapid.T) Program {
			p := GenProgram(rt, GenCfg{DB: dbx.GenCfg{AllowEnc: true, ForceNormal: true, KeepVersions: []int{1, 2, 0}}, MinOps: 8, MaxOps: 40, BigValues: true, MaxFan: 2,
				Weights: map[string]int{"txn": 10, "fill": 4, "flush": 5, "compact": 5, "reopen": 5, "churn": 1, "deepen": 1, "begin": 1, "get": 1, "dropall": 1, "dropprefix": 1},
				FixSpec: func(s *dbx.Spec) {
					s.InMemory = false
					s.Compression = 0
					s.ExternalMagic = 0
				}})
			p.Spec.EncKeyLen = rapid.SampledFrom([]int{16, 24, 32, 16, 24, 32, 32, 0}).Draw(rt, "keylen")
			p.Spec.BlockCache, p.Spec.IndexCache = true, true
			p.Keys = markerKeys(len(p.Keys))
			return p
		},
		func(p Program, rec *evid.Rec) (core.Result, error) {
			st := &c23State{ivSeen: map[string]string{}, logSeen: map[string]string{}, keyIDs: map[uint64]bool{}}
			in, err := Run(p, func(in *Interp) {
				extSetup(map[string]func(*Interp, Op) error{"dropprefix": dropPrefixOp, "dropall": dropAllOp})(in)
				in.AfterOp = func(in *Interp) error {
					switch in.P.Ops[in.step].Kind {
					case "flush", "compact", "gc", "reopen", "commit":
						in.db.VerifWaitFlushed()
						if err := in.ivCensus(st); err != nil {
							return err
						}
						if in.P.Ops[in.step].Kind != "commit" {
							return in.scanPlaintext(st, "after "+in.P.Ops[in.step].Kind)
						}
					}
					return nil
				}
				in.OnReopen = func(in *Interp) error { // the store is closed
					if err := in.scanPlaintext(st, "store closed"); err != nil {
						return err
					}
					if in.P.Spec.EncKeyLen == 0 {
						return nil
					}
					a := in.P.Ops[in.step].A
					if a%2 == 0 {
						before, _ := dirHash(in.dir)
						wrong := otherKey(in.P.Spec, a)
						db, err := in.P.Spec.Open(in.dir, func(o *badger.Options) { o.EncryptionKey = wrong })
						if err == nil {
							db.Close()
							return in.errf("Open with a different %d-byte master key succeeded", len(wrong))
						}
						if !errors.Is(err, badger.ErrEncryptionKeyMismatch) && !strings.Contains(err.Error(), badger.ErrEncryptionKeyMismatch.Error()) {
							return in.errf("Open with a different %d-byte master key fails with %q, want ErrEncryptionKeyMismatch", len(wrong), err)
						}
						after, _ := dirHash(in.dir)
						if before != after {
							return in.errf("the rejected Open with a different master key changed files of the directory")
						}
						st.wrong++
					}
					if a%5 >= 3 {
						old := in.P.Spec.MasterKey()
						opt := badger.KeyRegistryOptions{Dir: in.dir, ReadOnly: true, EncryptionKey: old, EncryptionKeyRotationDuration: 240 * time.Hour}
						kr, err := badger.OpenKeyRegistry(opt)
						if err != nil {
							return in.errf("rotate: OpenKeyRegistry with the current master key: %v", err)
						}
						in.P.Spec.AltKey = !in.P.Spec.AltKey
						opt.EncryptionKey = in.P.Spec.MasterKey()
						if err := badger.WriteKeyRegistry(kr, opt); err != nil {
							return in.errf("rotate: WriteKeyRegistry: %v", err)
						}
						kr.Close()
						st.rotated++
					}
					return nil
				}
			})
			res := core.Result{Classes: classesOf(in.St, p), Excluded: in.St.Excluded}
			rec.Add("scans", st.scans)
			rec.Add("table_blocks_in_census", st.blocks)
			rec.Add("wrong_key_opens", st.wrong)
			rec.Add("master_key_rotations", st.rotated)
			cls := func(c bool, n string) {
				if c {
					res.Classes = append(res.Classes, n)
				}
			}
			cls(st.wrong > 0, "wrong_key_open")
			cls(st.rotated > 0, "master_key_rotated")
			cls(len(st.keyIDs) > 1, "several_data_keys")
			cls(p.Spec.EncKeyLen == 0, "control_unencrypted")
			if err == nil && p.Spec.EncKeyLen == 0 && in.St.Flushes > 0 && len(in.m.Keys) > 0 && st.found == 0 {
				err = fmt.Errorf("control: the store is NOT encrypted, holds %d keys in flushed tables, and the plaintext scanner found nothing - the scanner is broken", len(in.m.Keys))
			}
			res.NonTrivial = p.Spec.EncKeyLen > 0 && st.scans >= 2 && in.St.TablesMax >= 1 && (st.wrong > 0 || st.rotated > 0)
			return res, err
		})
}
