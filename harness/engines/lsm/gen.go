package lsm

import (
	"bytes"
	"sort"

	"pgregory.net/rapid"

	"verifharness/internal/dbx"
)

var alphabet = []byte{0x00, 0x01, 'a', 'b', 0xFE, 0xFF}

// GenCfg tunes the program generator for one property.
type GenCfg struct {
	DB             dbx.GenCfg
	MinOps, MaxOps int
	Weights        map[string]int
	TTL            bool
	Discard        bool
	Hold           bool
	MinKeys        int
	MaxKeys        int
	BigValues      bool
	MaxFan         int
	CapToThreshold bool // values never exceed the value threshold (the in-memory mode limit)
	FixSpec        func(s *dbx.Spec)
}

// genKeys draws a pool of distinct keys in which prefix relations and 0x00/0xFF bytes are the norm.
func genKeys(t *rapid.T, minN, maxN int) [][]byte {
	n := rapid.IntRange(minN, maxN).Draw(t, "nkeys")
	seen := map[string]bool{}
	var keys [][]byte
	for len(keys) < n {
		var k []byte
		if len(keys) > 0 && rapid.IntRange(0, 2).Draw(t, "derive") > 0 {
			base := keys[rapid.IntRange(0, len(keys)-1).Draw(t, "base")]
			if rapid.Bool().Draw(t, "extend") || len(base) == 1 {
				k = append(append([]byte{}, base...), rapid.SliceOfN(rapid.SampledFrom(alphabet), 1, 2).Draw(t, "ext")...)
			} else {
				k = append([]byte{}, base[:len(base)-1]...)
			}
		} else {
			k = rapid.SliceOfN(rapid.SampledFrom(alphabet), 1, 4).Draw(t, "key")
		}
		if len(k) == 0 || len(k) > 8 || seen[string(k)] {
			if len(seen) >= 40 {
				break
			}
			seen[string(k)+"#"] = true // bound the loop
			continue
		}
		seen[string(k)] = true
		keys = append(keys, k)
	}
	sort.Slice(keys, func(i, j int) bool { return bytes.Compare(keys[i], keys[j]) < 0 })
	return keys
}

var capToThreshold bool // set per generated program by GenProgram (generation is single threaded)

func genVSize(t *rapid.T, s dbx.Spec, big bool) int {
	T := int(s.ValueThreshold)
	cands := []int{0, 1, 5, T - 1, T, T + 1, 2 * T, s.BlockSize - 1, s.BlockSize + 1, 100}
	if big {
		cands = append(cands, 700, 4096)
	}
	v := rapid.SampledFrom(cands).Draw(t, "vsize")
	max := int(s.MemTableSize / 12)
	if v > max {
		v = max
	}
	if v < 0 {
		v = 0
	}
	if capToThreshold && v > int(s.ValueThreshold) {
		v = int(s.ValueThreshold)
	}
	return v
}

func genIterSpec(t *rapid.T, nkeys int, hold bool) *IterSpec {
	s := &IterSpec{Prefix: -1, Seek: -1}
	s.Reverse = rapid.Bool().Draw(t, "rev")
	switch rapid.IntRange(0, 5).Draw(t, "itkind") {
	case 0, 1:
		s.All = true
	case 2:
		s.KeyIter = true
		s.Prefix = rapid.IntRange(0, nkeys-1).Draw(t, "keyiterkey")
	}
	s.NoPrefetch = rapid.Bool().Draw(t, "nopf")
	s.PFSize = rapid.SampledFrom([]int{0, 1, 2, 100}).Draw(t, "pfsize")
	if !s.KeyIter && rapid.IntRange(0, 2).Draw(t, "useprefix") == 0 {
		s.Prefix = rapid.IntRange(0, nkeys-1).Draw(t, "prefixkey")
		s.PLen = rapid.IntRange(1, 3).Draw(t, "plen")
	}
	if rapid.IntRange(0, 3).Draw(t, "usesince") == 0 {
		s.Since = rapid.IntRange(1, 50).Draw(t, "since")
	}
	if rapid.IntRange(0, 1).Draw(t, "useseek") == 0 {
		s.Seek = rapid.IntRange(0, nkeys-1).Draw(t, "seek")
	}
	if hold && rapid.IntRange(0, 4).Draw(t, "hold") == 0 {
		s.Hold = rapid.IntRange(1, 3).Draw(t, "holdn")
	}
	return s
}

// GenProgram draws a whole program.
func GenProgram(t *rapid.T, c GenCfg) Program {
	var p Program
	capToThreshold = c.CapToThreshold
	p.Spec = dbx.Gen(t, c.DB)
	if c.FixSpec != nil {
		c.FixSpec(&p.Spec)
	}
	minK, maxK := c.MinKeys, c.MaxKeys
	if minK == 0 {
		minK, maxK = 3, 12
	}
	p.Keys = genKeys(t, minK, maxK)
	p.Fan = rapid.SampledFrom([]int{1, 1, 2, 4, 8}).Draw(t, "fan")
	if c.MaxFan > 0 && p.Fan > c.MaxFan {
		p.Fan = c.MaxFan
	}
	nk := len(p.Keys) * p.Fan
	var kinds []string
	for k, w := range c.Weights {
		for i := 0; i < w; i++ {
			kinds = append(kinds, k)
		}
	}
	sort.Strings(kinds)
	n := rapid.IntRange(c.MinOps, c.MaxOps).Draw(t, "nops")
	// open[s]: 0 = no transaction in slot s, 1 = read-only, 2 = read-write (generation-time
	// bookkeeping only, so that most operations address a live transaction; the interpreter
	// tolerates any slot).
	var open [4]int
	pick := func(label string, want func(int) bool) int {
		var cands []int
		for s, st := range open {
			if want(st) {
				cands = append(cands, s)
			}
		}
		if len(cands) == 0 || rapid.IntRange(0, 9).Draw(t, label+"any") == 0 {
			return rapid.IntRange(0, 3).Draw(t, label)
		}
		return rapid.SampledFrom(cands).Draw(t, label)
	}
	isOpen := func(st int) bool { return st > 0 }
	isRW := func(st int) bool { return st == 2 }
	isFree := func(st int) bool { return st == 0 }
	for i := 0; i < n; i++ {
		op := Op{Kind: rapid.SampledFrom(kinds).Draw(t, "kind")}
		switch op.Kind {
		case "fill", "l0l0", "churn", "deepen", "l0shape", "l0big", "gcrace", "delsweep":
			open[3] = 0
		case "reopen":
			open = [4]int{}
		}
		switch op.Kind {
		case "fill": // macro: several small transactions writing consecutive keys (enough data for several tables)
			p.Ops = append(p.Ops, genFill(t, p.Spec, c, nk, rapid.IntRange(3, 24).Draw(t, "fill"), 0)...)
			continue
		case "l0l0": // macro: four flushed L0 tables, aged, then worker 0 with a low adjusted score
			for j := 0; j < 4; j++ {
				p.Ops = append(p.Ops, genFill(t, p.Spec, c, nk, rapid.IntRange(1, 5).Draw(t, "fill"), 0)...)
				p.Ops = append(p.Ops, Op{Kind: "flush"})
			}
			p.Ops = append(p.Ops, Op{Kind: "backdate"}, Op{Kind: "compact", A: 0, B: 0, T: 1})
			continue
		case "l0big": // macro: four sizeable L0 tables merged by worker 0 into one big L0 table (which later L0->L0 picks skip)
			per := int(p.Spec.MemTableSize/12) - 8
			if T := int(p.Spec.ValueThreshold) - 1; per > T {
				per = T // keep the values inline so that the tables themselves are big
			}
			cnt := int(p.Spec.MemTableSize*6/10) / (per + 40)
			if cnt < 2 {
				cnt = 2
			}
			if cnt > 40 {
				cnt = 40
			}
			start := rapid.IntRange(0, nk-1).Draw(t, "start")
			for j := 0; j < 4; j++ {
				for x := 0; x < cnt; x++ {
					p.Ops = append(p.Ops, Op{Kind: "begin", T: 3, RW: true, Ts: uint64(rapid.IntRange(1, 60).Draw(t, "rts"))},
						Op{Kind: "set", T: 3, Key: start + x + j*rapid.IntRange(0, 2).Draw(t, "shift"), VSize: per},
						Op{Kind: "commit", T: 3, Ts: uint64(rapid.IntRange(1, 60).Draw(t, "cts"))})
				}
				p.Ops = append(p.Ops, Op{Kind: "flush"})
			}
			p.Ops = append(p.Ops, Op{Kind: "backdate"}, Op{Kind: "compact", A: 0, B: 0, T: 1})
			continue
		case "l0shape": // macro: several L0 tables with narrow key windows (overlapping or not), then an L0 compaction
			for j, m := 0, rapid.IntRange(2, 4).Draw(t, "tables"); j < m; j++ {
				lo := rapid.IntRange(0, nk-1).Draw(t, "lo")
				width := rapid.IntRange(1, 3).Draw(t, "width")
				if j == m-1 && rapid.Bool().Draw(t, "wide") {
					lo, width = 0, nk // the newest table spans everything written so far
				}
				p.Ops = append(p.Ops, Op{Kind: "begin", T: 3, RW: true, Ts: uint64(rapid.IntRange(1, 60).Draw(t, "rts"))})
				for x, cnt := 0, rapid.IntRange(1, 4).Draw(t, "cnt"); x < cnt; x++ {
					w := genWrite(t, p.Spec, c, 3, nk)
					w.Key = lo + rapid.IntRange(0, width-1).Draw(t, "off")
					if w.Key >= nk {
						w.Key = nk - 1
					}
					p.Ops = append(p.Ops, w)
				}
				p.Ops = append(p.Ops, Op{Kind: "commit", T: 3, Ts: uint64(rapid.IntRange(1, 60).Draw(t, "cts"))}, Op{Kind: "flush"})
			}
			p.Ops = append(p.Ops, Op{Kind: "compact", A: 0, B: rapid.IntRange(0, 2).Draw(t, "worker"), T: rapid.SampledFrom([]int{0, 0, 2}).Draw(t, "pk")})
			continue
		case "churn": // macro: values in the value log, overwritten, flushed, compacted (discard stats), then GC
			start := rapid.IntRange(0, nk-1).Draw(t, "start")
			cnt := rapid.IntRange(3, 10).Draw(t, "cnt")
			vs := int(p.Spec.ValueThreshold) + rapid.IntRange(0, 200).Draw(t, "extra")
			if capToThreshold {
				vs = int(p.Spec.ValueThreshold)
			}
			for round := 0; round < 2; round++ {
				for j := 0; j < cnt; j++ {
					p.Ops = append(p.Ops, Op{Kind: "begin", T: 3, RW: true, Ts: uint64(rapid.IntRange(1, 60).Draw(t, "rts"))},
						Op{Kind: "set", T: 3, Key: start + j, VSize: vs}, Op{Kind: "commit", T: 3, Ts: uint64(rapid.IntRange(1, 60).Draw(t, "cts"))})
				}
				if round == 0 && rapid.Bool().Draw(t, "midflush") {
					p.Ops = append(p.Ops, Op{Kind: "flush"})
				}
			}
			p.Ops = append(p.Ops, Op{Kind: "flush"}, Op{Kind: "compact", A: 0, B: 1}, Op{Kind: "gc", F: 0.001})
			continue
		case "delsweep": // macro (backup checks): incremental backup, a run of consecutive keys deleted while a reader holds the watermark, flush, L0 compaction (markers kept), incremental backup
			start := rapid.IntRange(0, nk-1).Draw(t, "start")
			cnt := rapid.IntRange(2, 8).Draw(t, "cnt")
			open[0] = 0
			p.Ops = append(p.Ops, Op{Kind: "backup", A: 1, B: rapid.IntRange(0, 63).Draw(t, "xb")},
				Op{Kind: "begin", T: 0, Ts: uint64(rapid.IntRange(1, 60).Draw(t, "rts"))},
				Op{Kind: "begin", T: 3, RW: true, Ts: uint64(rapid.IntRange(1, 60).Draw(t, "rts"))})
			for j := 0; j < cnt; j++ {
				p.Ops = append(p.Ops, Op{Kind: "del", T: 3, Key: start + j})
			}
			p.Ops = append(p.Ops, Op{Kind: "commit", T: 3, Ts: uint64(rapid.IntRange(1, 60).Draw(t, "cts"))}, Op{Kind: "flush"},
				Op{Kind: "compact", A: 0, B: 1}, Op{Kind: "backup", A: 1, B: rapid.IntRange(0, 63).Draw(t, "xb2")}, Op{Kind: "discard", T: 0})
			continue
		case "gcrace": // macro: churn, then a GC whose rewrite is paused while other ops run (delete + compaction, new iterators)
			start := rapid.IntRange(0, nk-1).Draw(t, "start")
			if rapid.Bool().Draw(t, "reserved") {
				start = reservedKeyBase // a key range that nothing else in the tree overlaps
				// no old reader may hold the discard watermark back (compactions would keep everything)
				p.Ops = append(p.Ops, Op{Kind: "discard", T: 0}, Op{Kind: "discard", T: 1}, Op{Kind: "discard", T: 2})
				open = [4]int{}
				// ... in a tree whose last level already holds enough data that L0 compacts into a
				// level ABOVE it (and finds nothing below the reserved range there)
				for j := 0; j < 2; j++ {
					p.Ops = append(p.Ops, genFill(t, p.Spec, c, nk, rapid.IntRange(10, 20).Draw(t, "fill"), 600)...)
					p.Ops = append(p.Ops, Op{Kind: "flush"}, Op{Kind: "compact", A: 0, B: 1}, Op{Kind: "compact", A: rapid.IntRange(1, 6).Draw(t, "lvl"), B: 1, T: 2})
				}
			}
			cnt := rapid.IntRange(3, 8).Draw(t, "cnt")
			vs := int(p.Spec.ValueThreshold) + rapid.IntRange(0, 200).Draw(t, "extra")
			for round := 0; round < 2; round++ {
				for j := 0; j < cnt; j++ {
					if round == 1 && j%2 == 1 {
						continue // half of the keys keep their first version: those are what GC moves
					}
					p.Ops = append(p.Ops, Op{Kind: "begin", T: 3, RW: true, Ts: uint64(rapid.IntRange(1, 60).Draw(t, "rts"))},
						Op{Kind: "set", T: 3, Key: start + j, VSize: vs}, Op{Kind: "commit", T: 3, Ts: uint64(rapid.IntRange(1, 60).Draw(t, "cts"))})
				}
			}
			p.Ops = append(p.Ops, Op{Kind: "flush"}, Op{Kind: "compact", A: 0, B: 1})
			var inside []Op
			switch rapid.SampledFrom([]int{0, 0, 1, 2}).Draw(t, "racekind") {
			case 0: // delete moved keys, flush, push the tombstones down
				inside = append(inside, Op{Kind: "begin", T: 3, RW: true, Ts: uint64(rapid.IntRange(1, 60).Draw(t, "rts"))})
				for j := 1; j < cnt; j += 2 {
					inside = append(inside, Op{Kind: "del", T: 3, Key: start + j})
				}
				inside = append(inside, Op{Kind: "commit", T: 3, Ts: uint64(rapid.IntRange(1, 60).Draw(t, "cts"))}, Op{Kind: "flush"},
					Op{Kind: "compact", A: 0, B: 1}, Op{Kind: "compact", A: rapid.IntRange(1, 6).Draw(t, "lvl"), B: 1, T: 2})
			case 1: // a reader arrives during the rewrite and keeps its iterator / items
				slot := rapid.IntRange(0, 2).Draw(t, "slot")
				open[slot] = 1
				inside = append(inside, Op{Kind: "begin", T: slot, Ts: uint64(rapid.IntRange(1, 60).Draw(t, "rts"))},
					Op{Kind: "iter", T: slot, It: &IterSpec{Prefix: -1, Seek: -1, Hold: 1 + rapid.IntRange(0, 2).Draw(t, "hold"), NoPrefetch: rapid.Bool().Draw(t, "nopf"), All: rapid.Bool().Draw(t, "all")}},
					Op{Kind: "gethold", T: slot, Key: start + 1})
			default: // overwrite moved keys and flush
				inside = append(inside, Op{Kind: "begin", T: 3, RW: true, Ts: uint64(rapid.IntRange(1, 60).Draw(t, "rts"))},
					Op{Kind: "set", T: 3, Key: start + 1, VSize: 3}, Op{Kind: "commit", T: 3, Ts: uint64(rapid.IntRange(1, 60).Draw(t, "cts"))}, Op{Kind: "flush"})
			}
			p.Ops = append(p.Ops, Op{Kind: "gc", F: 0.001, A: len(inside)})
			p.Ops = append(p.Ops, inside...)
			p.Ops = append(p.Ops, Op{Kind: "iterdrain", T: 0}, Op{Kind: "iterdrain", T: 1}, Op{Kind: "iterdrain", T: 2}, Op{Kind: "itemread", T: 0}, Op{Kind: "itemread", T: 1}, Op{Kind: "itemread", T: 2},
				Op{Kind: "compact", A: 0, B: 1}, Op{Kind: "check"})
			continue
		case "deepen": // macro: bigger data pushed down so that several levels fill up
			for j := 0; j < rapid.IntRange(1, 3).Draw(t, "rounds"); j++ {
				p.Ops = append(p.Ops, genFill(t, p.Spec, c, nk, rapid.IntRange(8, 30).Draw(t, "fill"), 600)...)
				p.Ops = append(p.Ops, Op{Kind: "flush"}, Op{Kind: "compact", A: 0, B: 1}, Op{Kind: "compact", A: rapid.IntRange(1, 6).Draw(t, "lvl"), B: 1, T: 2})
			}
			continue
		case "rwscan": // macro: a read-write transaction that writes, then reads its own writes back
			slot := pick("slot", isFree)
			open[slot] = 0
			p.Ops = append(p.Ops, Op{Kind: "begin", T: slot, RW: true, Ts: uint64(rapid.IntRange(1, 60).Draw(t, "rts"))})
			base := rapid.IntRange(0, nk-1).Draw(t, "base")
			for j, m := 0, rapid.IntRange(1, 5).Draw(t, "nwrites"); j < m; j++ {
				w := genWrite(t, p.Spec, c, slot, nk)
				w.Key = base + rapid.IntRange(0, 3).Draw(t, "dk")
				p.Ops = append(p.Ops, w)
				if rapid.IntRange(0, 2).Draw(t, "readnow") == 0 {
					p.Ops = append(p.Ops, Op{Kind: "get", T: slot, Key: base + rapid.IntRange(0, 3).Draw(t, "gk")})
				}
			}
			for j, m := 0, rapid.IntRange(1, 3).Draw(t, "niters"); j < m; j++ {
				p.Ops = append(p.Ops, Op{Kind: "iter", T: slot, It: genIterSpec(t, nk, false)})
				if rapid.IntRange(0, 1).Draw(t, "rewrite") == 0 {
					// write again (often to a key that is already pending) between two iterators
					w := genWrite(t, p.Spec, c, slot, nk)
					w.Key = base + rapid.IntRange(0, 3).Draw(t, "dk2")
					p.Ops = append(p.Ops, w, Op{Kind: "iter", T: slot, It: genIterSpec(t, nk, false)})
				}
			}
			if rapid.IntRange(0, 3).Draw(t, "docommit") > 0 {
				p.Ops = append(p.Ops, Op{Kind: "commit", T: slot, Ts: uint64(rapid.IntRange(1, 60).Draw(t, "cts"))})
			} else {
				p.Ops = append(p.Ops, Op{Kind: "discard", T: slot})
			}
			continue
		case "race": // macro: two overlapping read-write transactions touching nearby keys
			a, b := 0, 1
			if rapid.Bool().Draw(t, "swap") {
				a, b = 2, 3
			}
			open[a], open[b] = 0, 0
			k := rapid.IntRange(0, nk-1).Draw(t, "k")
			rd := Op{Kind: "get", T: a, Key: k}
			switch rapid.IntRange(0, 2).Draw(t, "readkind") {
			case 1:
				rd = Op{Kind: "iter", T: a, It: &IterSpec{Prefix: -1, Seek: k, Reverse: rapid.Bool().Draw(t, "rrev")}}
			case 2:
				rd = Op{Kind: "iter", T: a, It: genIterSpec(t, nk, false)}
			}
			p.Ops = append(p.Ops,
				Op{Kind: "begin", T: a, RW: true, Ts: uint64(rapid.IntRange(1, 60).Draw(t, "rts"))},
				Op{Kind: "begin", T: b, RW: true, Ts: uint64(rapid.IntRange(1, 60).Draw(t, "rts"))},
				rd,
				Op{Kind: "set", T: b, Key: k + rapid.SampledFrom([]int{0, 0, 0, 1}).Draw(t, "dk"), VSize: 3},
				Op{Kind: "set", T: a, Key: k + rapid.SampledFrom([]int{0, 1, 2}).Draw(t, "dk2"), VSize: 4})
			first, second := b, a
			if rapid.IntRange(0, 3).Draw(t, "order") == 0 {
				first, second = a, b
			}
			p.Ops = append(p.Ops, Op{Kind: "commit", T: first, Ts: uint64(rapid.IntRange(1, 60).Draw(t, "cts"))},
				Op{Kind: "commit", T: second, Ts: uint64(rapid.IntRange(1, 60).Draw(t, "cts"))})
			continue
		case "txn": // macro: a small complete transaction (begin, writes, commit) in one slot
			slot := pick("slot", isFree)
			open[slot] = 0
			p.Ops = append(p.Ops, Op{Kind: "begin", T: slot, RW: true, Ts: uint64(rapid.IntRange(1, 60).Draw(t, "rts"))})
			m := rapid.IntRange(1, 4).Draw(t, "nwrites")
			for j := 0; j < m; j++ {
				p.Ops = append(p.Ops, genWrite(t, p.Spec, c, slot, nk))
			}
			p.Ops = append(p.Ops, Op{Kind: "commit", T: slot, Ts: uint64(rapid.IntRange(1, 60).Draw(t, "cts"))})
			continue
		case "begin":
			op.T = pick("slot", isFree)
			op.RW = rapid.IntRange(0, 2).Draw(t, "rw") > 0
			op.Ts = uint64(rapid.IntRange(1, 60).Draw(t, "rts"))
			open[op.T] = 1
			if op.RW {
				open[op.T] = 2
			}
		case "set", "del":
			op = genWrite(t, p.Spec, c, pick("slot", isRW), nk)
			if op.Kind == "set" && rapid.IntRange(0, 5).Draw(t, "asdel") == 0 {
				op.Kind = "del"
			}
		case "get", "gethold":
			op.T = pick("slot", isOpen)
			op.Key = rapid.IntRange(0, nk-1).Draw(t, "key")
			if op.Kind == "gethold" && !c.Hold {
				op.Kind = "get"
			}
		case "iter":
			op.T = pick("slot", isOpen)
			op.It = genIterSpec(t, nk, c.Hold)
		case "commit":
			op.T = pick("slot", isRW)
			op.Ts = uint64(rapid.IntRange(1, 60).Draw(t, "cts"))
			open[op.T] = 0
		case "discard":
			op.T = pick("slot", isOpen)
			open[op.T] = 0
		case "itemread", "iterdrain":
			op.T = pick("slot", isOpen)
		case "compact":
			op.A = rapid.IntRange(0, 6).Draw(t, "level")
			if rapid.IntRange(0, 1).Draw(t, "l0") == 0 {
				op.A = 0
			}
			op.B = rapid.IntRange(0, 2).Draw(t, "worker")
			op.T = rapid.IntRange(0, 2).Draw(t, "priokind")
		case "backdate", "reopen", "discardts":
			op.A = rapid.IntRange(0, 5).Draw(t, "a")
		case "gc":
			op.F = rapid.SampledFrom([]float64{0.001, 0.1, 0.5, 0.9}).Draw(t, "ratio")
		case "clock":
			op.A = rapid.SampledFrom([]int{1, 1, 2, 5, 30}).Draw(t, "dclock")
		case "stream", "backup", "dropprefix", "dropall", "xop":
			// derived checks: generic operands, interpreted by the check's own op handler
			op.A = rapid.IntRange(0, 1<<16).Draw(t, "xa")
			op.B = rapid.IntRange(0, 1<<16).Draw(t, "xb")
			op.Key = rapid.IntRange(0, nk-1).Draw(t, "xkey")
			op.Ts = uint64(rapid.IntRange(0, 60).Draw(t, "xts"))
		}
		p.Ops = append(p.Ops, op)
	}
	return p
}

func genFill(t *rapid.T, s dbx.Spec, c GenCfg, nk, cnt, minV int) []Op {
	var ops []Op
	start := rapid.IntRange(0, nk-1).Draw(t, "start")
	stride := rapid.SampledFrom([]int{1, 1, 3, 7}).Draw(t, "stride")
	for j := 0; j < cnt; {
		ops = append(ops, Op{Kind: "begin", T: 3, RW: true, Ts: uint64(rapid.IntRange(1, 60).Draw(t, "rts"))})
		m := rapid.IntRange(1, 3).Draw(t, "per")
		for x := 0; x < m && j < cnt; x++ {
			w := genWrite(t, s, c, 3, nk)
			w.Key = start + j*stride
			if w.Kind == "set" && w.VSize < minV && !capToThreshold {
				w.VSize = minV
				if max := int(s.MemTableSize / 12); w.VSize > max {
					w.VSize = max
				}
			}
			ops = append(ops, w)
			j++
		}
		ops = append(ops, Op{Kind: "commit", T: 3, Ts: uint64(rapid.IntRange(1, 60).Draw(t, "cts"))})
	}
	return ops
}

func genWrite(t *rapid.T, s dbx.Spec, c GenCfg, slot, nk int) Op {
	op := Op{Kind: "set", T: slot, Key: rapid.IntRange(0, nk-1).Draw(t, "key")}
	if rapid.IntRange(0, 4).Draw(t, "isdel") == 0 {
		op.Kind = "del"
		return op
	}
	op.VSize = genVSize(t, s, c.BigValues)
	op.Meta = rapid.SampledFrom([]byte{0, 0, 1, 0x7f, 0xff}).Draw(t, "meta")
	if c.TTL && rapid.IntRange(0, 2).Draw(t, "hasttl") == 0 {
		op.TTL = rapid.SampledFrom([]int{-100, -1, 1, 2, 3, 10, 100}).Draw(t, "ttl")
	}
	if c.Discard && rapid.IntRange(0, 4).Draw(t, "disc") == 0 {
		op.Disc = true
	}
	return op
}
