package lsm

import (
	"bytes"
	"fmt"
	"io"
	"os"
	"path/filepath"
	"testing"

	badger "github.com/dgraph-io/badger/v4"
	"github.com/dgraph-io/badger/v4/pb"
	"github.com/dgraph-io/ristretto/v2/z"
	"pgregory.net/rapid"

	"verifharness/internal/core"
	"verifharness/internal/dbx"
	"verifharness/internal/evid"
)

// ---- C11 (second part): timestamps after Load, StreamWriter.Flush, DropAll, with crash / close ----------

type c11Case struct {
	Prog    Program `json:"prog"`
	Variant int     `json:"variant"` // 0 Load of a full backup, 1 StreamWriter, 2 DropAll
	End     int     `json:"end"`     // 0 keep the store open, 1 crash image, 2 clean close + open
	Extra   int     `json:"extra"`   // StreamWriter: how far above the stored versions the streamed ones are
	MaxPend int     `json:"maxpend"`
}

func copyDirTree(src, dst string) error {
	if err := os.MkdirAll(dst, 0o755); err != nil {
		return err
	}
	ents, err := os.ReadDir(src)
	if err != nil {
		return err
	}
	for _, e := range ents {
		if e.Name() == "LOCK" {
			continue
		}
		in, err := os.Open(filepath.Join(src, e.Name()))
		if os.IsNotExist(err) {
			continue
		}
		if err != nil {
			return err
		}
		out, err := os.Create(filepath.Join(dst, e.Name()))
		if err != nil {
			in.Close()
			return err
		}
		_, err = io.Copy(out, in)
		in.Close()
		out.Close()
		if err != nil {
			return err
		}
	}
	return nil
}

func runC11(c c11Case, rec *evid.Rec) (core.Result, error) {
	var res core.Result
	in := &Interp{P: c.Prog}
	if err := in.Open(); err != nil {
		return res, err
	}
	defer in.Close()
	if err := in.Exec(); err != nil {
		return res, err
	}
	in.dropAllTxns()
	spec := c.Prog.Spec
	base := core.Scratch("c11")
	defer os.RemoveAll(base)
	tdir := filepath.Join(base, "t0")
	os.MkdirAll(tdir, 0o755)
	var target *badger.DB
	var err error
	closeTarget := func() {
		if target != nil && target != in.db {
			target.Close()
		}
		target = nil
	}
	defer closeTarget()
	what := ""
	switch c.Variant % 3 {
	case 0: // Load a full backup of the history into a fresh store
		var buf bytes.Buffer
		if _, err := doBackup(in.db, false, &buf, 0, 2); err != nil {
			return res, fmt.Errorf("Backup: %v", err)
		}
		if target, err = spec.Open(tdir, nil); err != nil {
			return res, err
		}
		if err := target.Load(bytes.NewReader(buf.Bytes()), 1+c.MaxPend%8); err != nil {
			return res, fmt.Errorf("Load: %v", err)
		}
		what = "Load of a full backup"
	case 1: // StreamWriter on a fresh store, versions well above anything else
		if target, err = spec.Open(tdir, nil); err != nil {
			return res, err
		}
		sw := target.NewStreamWriter()
		if err := sw.Prepare(); err != nil {
			return res, fmt.Errorf("Prepare: %v", err)
		}
		keys := in.allKeys()
		for wi := 0; wi < 2; wi++ { // one stream, two Write calls in key order; the second one carries the LOWER versions
			b := z.NewBuffer(1<<10, "verif.c11")
			for ki, k := range keys {
				if (ki >= len(keys)/2) != (wi == 1) {
					continue
				}
				ver := uint64(10 + c.Extra%50)
				if wi == 0 {
					ver += 100
				}
				badger.KVToBuffer(&pb.KV{Key: k, Value: []byte("streamed"), Version: ver + uint64(ki%3), StreamId: 1}, b)
			}
			err := sw.Write(b)
			b.Release()
			if err != nil {
				return res, fmt.Errorf("StreamWriter.Write: %v", err)
			}
		}
		if err := sw.Flush(); err != nil {
			return res, fmt.Errorf("StreamWriter.Flush: %v", err)
		}
		what = "StreamWriter.Flush"
	default: // DropAll on the history's own store
		if spec.InMemory {
			return res, nil
		}
		if err := in.db.DropAll(); err != nil {
			return res, fmt.Errorf("DropAll: %v", err)
		}
		target, tdir = in.db, in.dir
		what = "DropAll"
	}
	target.VerifWaitFlushed()
	stored := target.MaxVersion()
	switch c.End % 3 {
	case 1: // crash: the directory image as it is now (nothing in flight), opened instead
		img := filepath.Join(base, "img")
		if err := copyDirTree(tdir, img); err != nil {
			return res, err
		}
		closeTarget()
		if target, err = spec.Open(img, nil); err != nil {
			return res, fmt.Errorf("open of the crash image after %s: %v", what, err)
		}
		what += " + crash"
	case 2:
		if target == in.db {
			in.db = nil
		}
		if err := target.Close(); err != nil {
			target = nil
			return res, fmt.Errorf("Close after %s: %v", what, err)
		}
		if target, err = spec.Open(tdir, nil); err != nil {
			return res, fmt.Errorf("re-open after %s: %v", what, err)
		}
		what += " + close/open"
	}
	if mv := target.MaxVersion(); mv > stored {
		stored = mv
	}
	// a new commit: its version is above everything stored, and it is what readers get
	k := append([]byte{}, in.allKeys()[0]...)
	nv := []byte("N")
	if err := target.Update(func(txn *badger.Txn) error { return txn.Set(k, nv) }); err != nil {
		return res, fmt.Errorf("commit after %s: %v", what, err)
	}
	var ver uint64
	var got []byte
	err = target.View(func(txn *badger.Txn) error {
		item, err := txn.Get(k)
		if err != nil {
			return err
		}
		ver = item.Version()
		got, err = item.ValueCopy(nil)
		return err
	})
	if err != nil || !bytes.Equal(got, nv) {
		return res, fmt.Errorf("after %s (newest stored version %d): the new commit of %x is not what a later read returns (version %d, value %q, err %v): stale data shadows it", what, stored, k, ver, got, err)
	}
	if ver <= stored {
		return res, fmt.Errorf("after %s: the new commit got version %d, not above the newest stored version %d", what, ver, stored)
	}
	res.Classes = append(res.Classes, []string{"after_load", "after_streamwriter", "after_dropall"}[c.Variant%3], []string{"store_kept_open", "crash_image", "close_and_open"}[c.End%3])
	rec.Add("newest_stored_version", int(stored))
	res.NonTrivial = stored > 1
	return res, nil
}

func TestC11_AfterLoadStreamDrop(t *testing.T) {
	core.Run(t, "C11", "load_stream_drop",
		"a rapid-generated history (normal mode; overwrites, deletes, flushes, compactions) followed by one of: a full Backup loaded into a fresh store (keys arrive in key order, so versions in the WAL are NOT ascending), a StreamWriter run on a fresh store (two Write calls, the later one carrying the lower versions), DropAll on the history's store; then the store is kept open, replaced by its crash image (directory copied with nothing in flight: the loaded data is still in the WAL only), or closed and re-opened. Oracle: the next commit is visible to a later read and its version is above DB.MaxVersion() as it was before the commit. Non-trivial = the store held versions above 1.",
		func(rt *rapid.T) c11Case {
			var c c11Case
			c.Prog = GenProgram(rt, GenCfg{DB: dbx.GenCfg{AllowEnc: true, ForceNormal: true, KeepVersions: []int{1, 2, 0}}, MinOps: 4, MaxOps: 24, BigValues: true,
				Weights: map[string]int{"txn": 10, "fill": 3, "flush": 3, "compact": 3},
				FixSpec: func(s *dbx.Spec) { s.InMemory = false }})
			c.Variant = rapid.IntRange(0, 2).Draw(rt, "variant")
			c.End = rapid.IntRange(0, 2).Draw(rt, "end")
			c.Extra = rapid.IntRange(0, 49).Draw(rt, "extra")
			c.MaxPend = rapid.IntRange(0, 7).Draw(rt, "maxpend")
			return c
		}, runC11)
}
