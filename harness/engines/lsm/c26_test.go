package lsm

import (
	"bytes"
	"fmt"
	"math"
	"os"
	"sort"
	"sync"
	"testing"

	badger "github.com/dgraph-io/badger/v4"
	"github.com/dgraph-io/badger/v4/pb"
	"github.com/dgraph-io/badger/v4/y"
	"github.com/dgraph-io/ristretto/v2/z"
	"pgregory.net/rapid"

	"verifharness/internal/core"
	"verifharness/internal/dbx"
	"verifharness/internal/evid"
	"verifharness/internal/model"
)

// ---- C26: StreamWriter builds exactly the streamed database ----------------------------------------

type swKV struct {
	Key   int    `json:"key"`
	Ver   uint64 `json:"ver"` // offset above the pre-existing data's newest version
	VSize int    `json:"vs"`
	Del   bool   `json:"del,omitempty"`
	Meta  byte   `json:"meta,omitempty"`
	TTL   int    `json:"ttl,omitempty"`
}

type swChunk struct {
	Stream int  `json:"s"`
	N      int  `json:"n"`
	Done   bool `json:"done,omitempty"` // append the stream's done marker after the chunk
}

type c26Case struct {
	Spec        dbx.Spec    `json:"spec"`
	Keys        [][]byte    `json:"keys"`
	Pre         [][]swKV    `json:"pre"` // pre-existing transactions (incremental mode)
	PreShape    int         `json:"preshape"`
	Incremental bool        `json:"incremental"`
	Streams     [][]swKV    `json:"streams"` // per stream: ascending keys, descending versions
	Writes      [][]swChunk `json:"writes"`  // per StreamWriter.Write call: chunks of streams
	Rounds      int         `json:"rounds"`  // incremental mode: the stream set is written this many times with rising versions
	// LowVersions (managed incremental mode): streamed versions are odd numbers counted from zero,
	// the pre-existing data sits at even versions - a stream may back-fill versions BELOW existing ones
	LowVersions bool `json:"lowversions,omitempty"`
	Parallel    bool `json:"parallel,omitempty"` // two goroutines call Write concurrently (disjoint stream sets)
}

func genC26(t *rapid.T) c26Case {
	var c c26Case
	c.Spec = dbx.Gen(t, dbx.GenCfg{AllowInMemory: true, AllowManaged: true, AllowEnc: true, KeepVersions: []int{1, 2, 0}})
	c.Spec.ExternalMagic, c.Spec.ManifestRewriteAt = 0, 0
	c.Spec.CompactL0OnClose = false // a compaction at Close may drop versions; the re-open comparison is exact
	c.Keys = genKeys(t, 3, 14)
	fan := rapid.SampledFrom([]int{1, 1, 2, 4}).Draw(t, "fan")
	var keys [][]byte
	for j := 0; j < fan; j++ {
		for _, k := range c.Keys {
			kk := append([]byte{}, k...)
			if j > 0 {
				kk = append(kk, fanBytes[j])
			}
			keys = append(keys, kk)
		}
	}
	sort.Slice(keys, func(i, j int) bool { return bytes.Compare(keys[i], keys[j]) < 0 })
	c.Keys = keys
	nk := len(keys)
	c.Incremental = rapid.IntRange(0, 2).Draw(t, "incremental") == 0
	vsize := func() int {
		T := int(c.Spec.ValueThreshold)
		cands := []int{0, 1, T - 1, T, T + 1, 3 * T, 200, 900}
		v := rapid.SampledFrom(cands).Draw(t, "vsize")
		if v < 0 {
			v = 0
		}
		if c.Spec.InMemory && v > T {
			v = T // the in-memory mode has no value log
		}
		if max := int(c.Spec.MemTableSize / 12); v > max {
			v = max
		}
		return v
	}
	if c.Incremental {
		c.Rounds = rapid.IntRange(1, 2).Draw(t, "rounds")
		for i, n := 0, rapid.IntRange(0, 8).Draw(t, "npre"); i < n; i++ {
			var txn []swKV
			for j, m := 0, rapid.IntRange(1, 4).Draw(t, "ntxn"); j < m; j++ {
				txn = append(txn, swKV{Key: rapid.IntRange(0, nk-1).Draw(t, "pkey"), VSize: min(vsize(), int(c.Spec.MemTableSize/48)), Del: rapid.IntRange(0, 5).Draw(t, "pdel") == 0, Meta: rapid.SampledFrom([]byte{0, 1, 0xff}).Draw(t, "pmeta")})
			}
			c.Pre = append(c.Pre, txn)
		}
		c.PreShape = rapid.IntRange(0, 5).Draw(t, "preshape")
		if c.Spec.Managed && rapid.Bool().Draw(t, "lowversions") {
			c.LowVersions = true
			c.Rounds = 1
		}
	} else {
		c.Rounds = 1
	}
	// streams: contiguous, non-overlapping segments of the sorted key list
	ns := rapid.IntRange(1, 4).Draw(t, "nstreams")
	if ns > nk {
		ns = nk
	}
	cuts := []int{0}
	for i := 1; i < ns; i++ {
		cuts = append(cuts, rapid.IntRange(cuts[len(cuts)-1], nk).Draw(t, "cut"))
	}
	cuts = append(cuts, nk)
	for s := 0; s < ns; s++ {
		var st []swKV
		for ki := cuts[s]; ki < cuts[s+1]; ki++ {
			if rapid.IntRange(0, 5).Draw(t, "skip") == 0 {
				continue
			}
			nv := rapid.SampledFrom([]int{1, 1, 1, 2, 3}).Draw(t, "nvers")
			ver := uint64(rapid.IntRange(nv, 40).Draw(t, "topver"))
			for v := 0; v < nv; v++ {
				e := swKV{Key: ki, Ver: ver, VSize: vsize(), Meta: rapid.SampledFrom([]byte{0, 0, 7, 0xff}).Draw(t, "meta")}
				if rapid.IntRange(0, 6).Draw(t, "del") == 0 {
					e.Del = true
				}
				if rapid.IntRange(0, 5).Draw(t, "hasttl") == 0 {
					e.TTL = rapid.SampledFrom([]int{-5, 50}).Draw(t, "ttl")
				}
				st = append(st, e)
				if ver <= 1 {
					break
				}
				ver -= uint64(rapid.IntRange(1, int(min(ver-1, 5))).Draw(t, "dver"))
			}
		}
		c.Streams = append(c.Streams, st)
	}
	c.Parallel = ns >= 2 && rapid.IntRange(0, 2).Draw(t, "parallel") == 0
	// schedule: cut every stream into chunks and interleave them into Write calls
	pos := make([]int, ns)
	doneSent := make([]bool, ns)
	withDone := rapid.Bool().Draw(t, "donemarkers")
	for {
		var live []int
		for s := range c.Streams {
			if pos[s] < len(c.Streams[s]) || (withDone && !doneSent[s]) {
				live = append(live, s)
			}
		}
		if len(live) == 0 {
			break
		}
		var w []swChunk
		for _, s := range live {
			if len(live) > 1 && rapid.IntRange(0, 2).Draw(t, "absent") == 0 {
				continue
			}
			left := len(c.Streams[s]) - pos[s]
			n := 0
			if left > 0 {
				n = rapid.IntRange(1, left).Draw(t, "chunk")
			}
			ch := swChunk{Stream: s, N: n}
			pos[s] += n
			if withDone && pos[s] == len(c.Streams[s]) && rapid.Bool().Draw(t, "donenow") {
				ch.Done = true
				doneSent[s] = true
			}
			if ch.N > 0 || ch.Done {
				w = append(w, ch)
			}
		}
		if len(w) > 0 {
			c.Writes = append(c.Writes, w)
		}
	}
	return c
}

func (c c26Case) kvOf(e swKV, base uint64, clock uint64, seq int) (*pb.KV, model.Ver) {
	v := model.Ver{Ts: base + e.Ver, UserMeta: e.Meta}
	kv := &pb.KV{Key: append([]byte{}, c.Keys[e.Key%len(c.Keys)]...), Version: base + e.Ver, UserMeta: []byte{e.Meta}}
	if e.Del {
		v.Deleted = true
		kv.Meta = []byte{badger.VerifBitDelete}
		v.UserMeta = e.Meta
	} else {
		v.Val = val(seq, e.VSize)
		kv.Value = v.Val
	}
	if e.TTL != 0 {
		v.ExpiresAt = uint64(int64(clock) + int64(e.TTL))
		kv.ExpiresAt = v.ExpiresAt
	}
	return kv, v
}

// compareWithModel: opt marks versions a compaction was allowed to drop (pre-existing data that is
// not the visible version of its key): they may be missing, everything else must be there exactly.
func compareWithModel(db *badger.DB, managed bool, m *model.Model, opt map[string]bool, label string) error {
	txn := reader(db, managed)
	defer txn.Discard()
	got, err := allVersionsOf(txn)
	if err != nil {
		return fmt.Errorf("%s: %v", label, err)
	}
	for k, vs := range m.Keys {
		gl := got[k]
		gi := 0
		for i, w := range vs {
			optional := opt[staleKey([]byte(k), w.Ts)] && !(i == 0 && !m.Dead(w))
			if gi >= len(gl) || gl[gi].ver != w.Ts {
				if optional {
					continue
				}
				var gv []uint64
				for _, g := range gl {
					gv = append(gv, g.ver)
				}
				var wv []uint64
				for _, w := range vs {
					wv = append(wv, w.Ts)
				}
				return fmt.Errorf("%s: key %x has versions %v, want %v (version %d is missing or misplaced)", label, []byte(k), gv, wv, w.Ts)
			}
			g := gl[gi]
			gi++
			dead := m.Dead(w)
			if g.dead != dead || g.expiresAt != w.ExpiresAt || (!dead && (!bytes.Equal(g.val, w.Val) || g.meta != w.UserMeta)) {
				if os.Getenv("VERIF_DUMP") != "" {
					it := txn.NewIterator(badger.IteratorOptions{AllVersions: true})
					for it.Rewind(); it.Valid(); it.Next() {
						isPtr, fid, ln, off := badger.VerifItemVptr(it.Item())
						fmt.Fprintf(os.Stderr, "TRACE item %x@%d meta=%x vptr=%v fid=%d len=%d off=%d size=%d\n", it.Item().Key(), it.Item().Version(), badger.VerifItemMeta(it.Item()), isPtr, fid, ln, off, it.Item().ValueSize())
					}
					it.Close()
				}
				return fmt.Errorf("%s: key %x version #%d: got %d dead=%v len=%d meta=%x exp=%d, want %d dead=%v len=%d meta=%x exp=%d", label, []byte(k), i,
					g.ver, g.dead, len(g.val), g.meta, g.expiresAt, w.Ts, dead, len(w.Val), w.UserMeta, w.ExpiresAt)
			}
		}
		if gi < len(gl) {
			return fmt.Errorf("%s: key %x has version %d which was neither streamed nor written before", label, []byte(k), gl[gi].ver)
		}
		// point read
		item, err := txn.Get([]byte(k))
		want := m.Visible([]byte(k), math.MaxUint64)
		switch {
		case err == badger.ErrKeyNotFound:
			if want != nil {
				return fmt.Errorf("%s: Get(%x) = not found, want version %d", label, []byte(k), want.Ts)
			}
		case err != nil:
			return fmt.Errorf("%s: Get(%x): %v", label, []byte(k), err)
		default:
			if want == nil {
				return fmt.Errorf("%s: Get(%x) yields version %d, want not found", label, []byte(k), item.Version())
			}
			v, err := item.ValueCopy(nil)
			if err != nil || item.Version() != want.Ts || !bytes.Equal(v, want.Val) {
				return fmt.Errorf("%s: Get(%x) yields version %d (len %d, err %v), want version %d (len %d)", label, []byte(k), item.Version(), len(v), err, want.Ts, len(want.Val))
			}
		}
	}
	for k, gl := range got {
		if _, ok := m.Keys[k]; !ok {
			return fmt.Errorf("%s: key %x@%d exists but was neither streamed nor present before", label, []byte(k), gl[0].ver)
		}
	}
	return nil
}

func runC26(c c26Case, rec *evid.Rec) (core.Result, error) {
	var res core.Result
	dir := core.Scratch("sw")
	defer os.RemoveAll(dir)
	const clock = clockBase
	y.VerifSetClock(clock)
	defer y.VerifSetClock(0)
	db, err := c.Spec.Open(dir, nil)
	if err != nil {
		return res, fmt.Errorf("open: %v", err)
	}
	defer func() {
		if db != nil {
			db.Close()
		}
	}()
	managed := c.Spec.Managed
	m := model.New(clock)
	seq := 0
	var base uint64
	preOpt := map[string]bool{}
	// pre-existing data
	for _, txnw := range c.Pre {
		var txn *badger.Txn
		if managed {
			txn = db.NewTransactionAt(math.MaxUint64, true)
		} else {
			txn = db.NewTransaction(true)
		}
		type pw struct {
			k []byte
			v model.Ver
		}
		var pws []pw
		for _, e := range txnw {
			seq++
			k := append([]byte{}, c.Keys[e.Key%len(c.Keys)]...)
			if e.Del {
				err = txn.Delete(k)
				pws = append(pws, pw{k, model.Ver{Deleted: true}})
			} else {
				v := val(seq, e.VSize)
				err = txn.SetEntry(badger.NewEntry(k, v).WithMeta(e.Meta))
				pws = append(pws, pw{k, model.Ver{Val: v, UserMeta: e.Meta}})
			}
			if err != nil {
				txn.Discard()
				return res, fmt.Errorf("pre-existing write: %v", err)
			}
		}
		if managed {
			base += 2
			err = txn.CommitAt(base, nil)
		} else {
			err = txn.Commit()
			base = db.MaxVersion()
		}
		if err != nil {
			return res, fmt.Errorf("pre-existing commit: %v", err)
		}
		for _, p := range pws {
			p.v.Ts = base
			m.Write(p.k, p.v)
			preOpt[staleKey(p.k, base)] = true
		}
	}
	if len(c.Pre) > 0 {
		if _, err := dbx.Flush(db); err != nil { // PrepareIncremental insists on empty memtables
			return res, err
		}
		switch c.PreShape % 3 {
		case 1:
			db.VerifCompact(1, badger.VerifPrio{Level: 0, Score: 2, Adjusted: 2})
		case 2:
			db.VerifCompact(1, badger.VerifPrio{Level: 0, Score: 2, Adjusted: 2})
			db.VerifCompact(1, badger.VerifPrio{Level: db.VerifBaseLevel(), Score: 2, Adjusted: 2})
		}
	}
	var maxStreamed uint64
	entries := 0
	for round := 0; round < c.Rounds; round++ {
		// whatever is stored already may be compacted by PrepareIncremental (Flatten)
		for k, vs := range m.Keys {
			for _, v := range vs {
				preOpt[staleKey([]byte(k), v.Ts)] = true
			}
		}
		sw := db.NewStreamWriter()
		if c.Incremental {
			err = sw.PrepareIncremental()
		} else {
			err = sw.Prepare()
		}
		if err != nil {
			sw.Cancel()
			return res, fmt.Errorf("round %d: prepare: %v", round, err)
		}
		if traceOn {
			for _, li := range db.Levels() {
				fmt.Fprintf(os.Stderr, "TRACE round %d after prepare: level %d tables %d\n", round, li.Level, li.NumTables)
			}
		}
		pos := make([]int, len(c.Streams))
		// build the buffers first (deterministic model updates), then hand them to Write: from one
		// goroutine in generated order, or (Parallel) from two goroutines, one for the streams with an
		// even and one for those with an odd index (Write is documented as safe for concurrent callers;
		// each stream's chunks keep their order)
		var lanes [2][]*z.Buffer
		for _, w := range c.Writes {
			var bufs [2]*z.Buffer
			for _, ch := range w {
				lane := 0
				if c.Parallel {
					lane = ch.Stream % 2
				}
				if bufs[lane] == nil {
					bufs[lane] = z.NewBuffer(1<<12, "verif.c26")
				}
				buf := bufs[lane]
				st := c.Streams[ch.Stream]
				for i := 0; i < ch.N && pos[ch.Stream] < len(st); i++ {
					seq++
					e := st[pos[ch.Stream]]
					sbase := base
					if c.LowVersions {
						sbase, e.Ver = 0, 2*e.Ver+1
					}
					kv, v := c.kvOf(e, sbase, clock, seq)
					kv.StreamId = uint32(ch.Stream + 1)
					badger.KVToBuffer(kv, buf)
					m.Write(kv.Key, v)
					if kv.Version > maxStreamed {
						maxStreamed = kv.Version
					}
					pos[ch.Stream]++
					entries++
				}
				if ch.Done {
					badger.KVToBuffer(&pb.KV{StreamId: uint32(ch.Stream + 1), StreamDone: true}, buf)
				}
			}
			for lane, b := range bufs {
				if b != nil {
					lanes[lane] = append(lanes[lane], b)
				}
			}
		}
		var werr [2]error
		var wwg sync.WaitGroup
		for lane := range lanes {
			wwg.Add(1)
			go func(lane int) {
				defer wwg.Done()
				for wi, b := range lanes[lane] {
					if werr[lane] == nil {
						if err := sw.Write(b); err != nil {
							werr[lane] = fmt.Errorf("round %d: StreamWriter.Write #%d (lane %d): %v", round, wi, lane, err)
						}
					}
					b.Release()
				}
			}(lane)
			if !c.Parallel {
				wwg.Wait() // single caller: strictly one Write after the other
			}
		}
		wwg.Wait()
		for _, err := range werr {
			if err != nil {
				sw.Cancel()
				return res, err
			}
		}
		if err := sw.Flush(); err != nil {
			return res, fmt.Errorf("round %d: StreamWriter.Flush: %v", round, err)
		}
		if err := db.VerifValidateLevels(); err != nil {
			return res, fmt.Errorf("round %d: levels invalid after Flush: %v", round, err)
		}
		if err := compareWithModel(db, managed, m, preOpt, fmt.Sprintf("round %d, after Flush", round)); err != nil {
			return res, err
		}
		base = m.MaxVersion()
	}
	if !c.Spec.InMemory {
		if err := db.Close(); err != nil {
			db = nil
			return res, fmt.Errorf("Close after StreamWriter: %v", err)
		}
		db, err = c.Spec.Open(dir, nil)
		if err != nil {
			db = nil
			return res, fmt.Errorf("re-open after StreamWriter: %v", err)
		}
		if err := compareWithModel(db, managed, m, preOpt, "after re-open"); err != nil {
			return res, err
		}
	}
	// the next transaction gets a timestamp above every streamed version
	if !managed {
		k := append([]byte{}, c.Keys[0]...)
		if err := db.Update(func(txn *badger.Txn) error { return txn.Set(k, []byte("A")) }); err != nil {
			return res, fmt.Errorf("commit after StreamWriter: %v", err)
		}
		var ver uint64
		var got []byte
		err := db.View(func(txn *badger.Txn) error {
			item, err := txn.Get(k)
			if err != nil {
				return err
			}
			ver = item.Version()
			got, err = item.ValueCopy(nil)
			return err
		})
		if err != nil || !bytes.Equal(got, []byte("A")) {
			return res, fmt.Errorf("a commit after StreamWriter (streamed versions up to %d) is not visible: Get = version %d, value %q, err %v", maxStreamed, ver, got, err)
		}
		if ver <= m.MaxVersion() {
			return res, fmt.Errorf("the first commit after StreamWriter got version %d, not above the newest stored version %d", ver, m.MaxVersion())
		}
	}
	rec.Add("streamed_entries", entries)
	rec.Add("write_calls", len(c.Writes)*c.Rounds)
	res.NonTrivial = entries >= 2 && len(c.Writes) >= 2
	cls := func(cond bool, n string) {
		if cond {
			res.Classes = append(res.Classes, n)
		}
	}
	cls(c.Incremental, "incremental")
	cls(c.Incremental && len(c.Pre) > 0, "incremental_on_existing_data")
	cls(c.Rounds > 1, "two_incremental_rounds")
	cls(c.Parallel, "concurrent_write_callers")
	cls(c.LowVersions && len(c.Pre) > 0, "stream_backfills_below_existing_versions")
	cls(len(c.Streams) > 1, "several_streams")
	cls(managed, "managed")
	cls(c.Spec.InMemory, "inmemory")
	cls(c.Spec.EncKeyLen > 0, "encrypted")
	cls(c.Spec.Compression > 0, "compressed")
	nt := 0
	for _, t := range db.Tables() {
		_ = t
		nt++
	}
	cls(nt >= 2, "tables>=2")
	return res, nil
}

func TestC26_StreamWriter(t *testing.T) {
	core.Run(t, "C26", "streamwriter",
		"rapid-generated stream sets: the sorted key pool is cut into 1-4 contiguous non-overlapping streams; per key 1-3 versions (descending), values around the value threshold and far above it, delete markers, user meta, TTLs; every stream is chunked and the chunks of different streams are interleaved into StreamWriter.Write calls (from one goroutine, or from two goroutines writing disjoint stream sets concurrently), done markers on/off; Prepare on an empty database or PrepareIncremental on generated pre-existing data (flushed; left in L0, compacted once or twice), one or two incremental rounds with rising versions, or (managed mode) a stream that back-fills versions below the existing ones; managed/normal, in-memory, encryption, compression. Oracle (reference model): after Flush and again after Close + re-open the all-versions view and every Get equal exactly the streamed entries plus the pre-existing data, the level structure validates, and (normal mode) the next commit is visible and gets a version above everything stored. Non-trivial = >=2 entries over >=2 Write calls.",
		genC26, runC26)
}
