package lsm

import (
	"bytes"
	"encoding/binary"
	"fmt"
	"os"
	"sort"
	"testing"

	badger "github.com/dgraph-io/badger/v4"
	"pgregory.net/rapid"

	"verifharness/internal/core"
	"verifharness/internal/dbx"
	"verifharness/internal/evid"
)

// ---- C28: validation and size accounting ---------------------------------------------------------------

type c28Op struct {
	Kind    int  `json:"k"`       // 0 set, 1 delete, 2 get, 3 commit+begin, 4 ban namespace
	KeyKind int  `json:"keykind"` // see c28Key
	KeyN    int  `json:"keyn"`
	ValKind int  `json:"valkind"` // see c28Val
	NS      int  `json:"ns"`
	Meta    byte `json:"meta,omitempty"`
}

type c28Case struct {
	InMemory  bool    `json:"inmemory"`
	Threshold int64   `json:"threshold"`
	MemTable  int64   `json:"memtable"`
	NSOffset  int     `json:"nsoffset"`
	Ops       []c28Op `json:"ops"`
}

const c28VlogSize = 1 << 20

func c28Key(c c28Case, op c28Op) []byte {
	n := op.KeyN
	switch op.KeyKind {
	case 0:
		return []byte{}
	case 1:
		return append([]byte("!badger!"), byte('a'+n%3))
	case 2:
		return []byte{byte('a' + n%5)}
	case 3, 4, 5: // 64999, 65000, 65001 bytes
		k := bytes.Repeat([]byte{'L'}, 64999+op.KeyKind-3)
		k[1] = byte('a' + n%3)
		return k
	case 6: // namespaced key: prefix up to the offset, 8-byte namespace, then at least one byte
		off := c.NSOffset
		if off < 0 {
			off = 0
		}
		k := bytes.Repeat([]byte{'n'}, off)
		var ns [8]byte
		binary.BigEndian.PutUint64(ns[:], uint64(op.NS%3))
		k = append(k, ns[:]...)
		return append(k, byte('a'+n%3))
	case 7: // exactly offset+8 bytes: too short to carry a namespace
		off := c.NSOffset
		if off < 0 {
			off = 0
		}
		k := bytes.Repeat([]byte{'n'}, off)
		var ns [8]byte
		binary.BigEndian.PutUint64(ns[:], uint64(op.NS%3))
		return append(k, ns[:]...)
	default:
		return []byte{'k', byte('0' + n%10), byte('a' + n%7)}
	}
}

func c28ValLen(c c28Case, op c28Op) int {
	T := int(c.Threshold)
	switch op.ValKind {
	case 0:
		return 0
	case 1:
		return T - 1
	case 2:
		return T
	case 3:
		return T + 1
	case 4:
		return c28VlogSize
	case 5:
		return c28VlogSize + 1
	case 6:
		return 700
	default:
		return 10
	}
}

func genC28(t *rapid.T) c28Case {
	var c c28Case
	c.InMemory = rapid.IntRange(0, 2).Draw(t, "inmemory") == 0
	c.Threshold = rapid.SampledFrom([]int64{16, 64, 1024}).Draw(t, "threshold")
	c.MemTable = rapid.SampledFrom([]int64{1 << 13, 1 << 16, 1 << 20, 1 << 23}).Draw(t, "memtable")
	if c.Threshold > c.MemTable*15/100 {
		c.Threshold = 16
	}
	c.NSOffset = rapid.SampledFrom([]int{-1, -1, 0, 3}).Draw(t, "nsoffset")
	n := rapid.IntRange(1, 40).Draw(t, "nops")
	for i := 0; i < n; i++ {
		op := c28Op{Kind: rapid.SampledFrom([]int{0, 0, 0, 0, 1, 2, 2, 3, 4}).Draw(t, "kind")}
		op.KeyKind = rapid.SampledFrom([]int{0, 1, 2, 2, 3, 4, 5, 6, 6, 7, 8, 8, 8}).Draw(t, "keykind")
		op.KeyN = rapid.IntRange(0, 20).Draw(t, "keyn")
		op.ValKind = rapid.SampledFrom([]int{0, 1, 2, 3, 6, 7, 7, 7}).Draw(t, "valkind")
		if rapid.IntRange(0, 24).Draw(t, "huge") == 0 {
			op.ValKind = rapid.SampledFrom([]int{4, 5}).Draw(t, "hugekind")
		}
		op.NS = rapid.IntRange(0, 2).Draw(t, "ns")
		op.Meta = rapid.SampledFrom([]byte{0, 7}).Draw(t, "meta")
		c.Ops = append(c.Ops, op)
	}
	return c
}

type c28Val struct {
	val     []byte
	meta    byte
	deleted bool
}

func runC28(c c28Case, rec *evid.Rec) (core.Result, error) {
	var res core.Result
	dir := core.Scratch("c28")
	defer os.RemoveAll(dir)
	spec := dbx.Default()
	spec.InMemory, spec.ValueThreshold, spec.MemTableSize, spec.NamespaceOffset = c.InMemory, c.Threshold, c.MemTable, c.NSOffset
	db, err := spec.Open(dir, nil)
	if err != nil {
		return res, fmt.Errorf("open: %v", err)
	}
	defer db.Close()
	committed := map[string]c28Val{}
	pending := map[string]c28Val{}
	banned := map[uint64]bool{}
	isBanned := func(key []byte) bool {
		if c.NSOffset < 0 || len(key) <= c.NSOffset+8 {
			return false
		}
		return banned[binary.BigEndian.Uint64(key[c.NSOffset:c.NSOffset+8])]
	}
	txn := db.NewTransaction(true)
	defer func() { txn.Discard() }()
	allAccepted := true
	atLimit, rejected := false, false
	seq := 0

	// expected rejection of a write (error identity is not asserted, only that it is an error)
	mustReject := func(key []byte, vlen int) (bool, string) {
		switch {
		case len(key) == 0:
			return true, "empty key"
		case bytes.HasPrefix(key, []byte("!badger!")):
			return true, "reserved !badger! prefix"
		case len(key) > 65000:
			return true, "key longer than 65000 bytes"
		case vlen > c28VlogSize:
			return true, "value larger than the value log file size"
		case c.InMemory && int64(vlen) > c.Threshold:
			return true, "value larger than the value threshold in memory mode"
		case isBanned(key):
			return true, "key in a banned namespace"
		}
		return false, ""
	}
	commit := func() error {
		err := txn.Commit()
		if err == badger.ErrTxnTooBig && allAccepted {
			return fmt.Errorf("Commit returned ErrTxnTooBig although every Set/Delete of the transaction had been accepted")
		}
		if err != nil {
			return fmt.Errorf("Commit: %v", err)
		}
		for k, v := range pending {
			committed[k] = v
		}
		pending = map[string]c28Val{}
		txn = db.NewTransaction(true)
		allAccepted = true
		return nil
	}
	for i, op := range c.Ops {
		key := c28Key(c, op)
		switch op.Kind {
		case 0, 1:
			vlen := 0
			if op.Kind == 0 {
				vlen = c28ValLen(c, op)
			}
			if len(key) == 65000 || len(key) == 64999 || vlen == int(c.Threshold) || vlen == c28VlogSize {
				atLimit = true
			}
			seq++
			v := val(seq, vlen)
			reject, why := mustReject(key, vlen)
			var werr error
			func() {
				defer func() {
					if r := recover(); r != nil {
						werr = fmt.Errorf("PANIC: %v", r)
					}
				}()
				if op.Kind == 0 {
					werr = txn.SetEntry(badger.NewEntry(append([]byte{}, key...), v).WithMeta(op.Meta))
				} else {
					werr = txn.Delete(append([]byte{}, key...))
				}
			}()
			if werr != nil && len(werr.Error()) >= 5 && werr.Error()[:5] == "PANIC" {
				return res, fmt.Errorf("op %d: write of key len %d / value len %d panicked instead of returning: %v", i, len(key), vlen, werr)
			}
			switch {
			case reject && werr == nil:
				return res, fmt.Errorf("op %d: write of key len %d (%x...) value len %d was accepted, must be rejected: %s", i, len(key), head(key), vlen, why)
			case reject:
				rejected = true
			case werr == badger.ErrTxnTooBig:
				// the transaction is full: commit what was accepted and retry once in a fresh one
				if err := commit(); err != nil {
					return res, fmt.Errorf("op %d: %v", i, err)
				}
				if op.Kind == 0 {
					werr = txn.SetEntry(badger.NewEntry(append([]byte{}, key...), v).WithMeta(op.Meta))
				} else {
					werr = txn.Delete(append([]byte{}, key...))
				}
				if werr == badger.ErrTxnTooBig {
					break // a single entry that does not fit any transaction: rejected, nothing to record
				}
				if werr != nil {
					return res, fmt.Errorf("op %d: valid write (key len %d, value len %d) rejected: %v", i, len(key), vlen, werr)
				}
				pending[string(key)] = c28Val{val: v, meta: op.Meta, deleted: op.Kind == 1}
			case werr != nil:
				return res, fmt.Errorf("op %d: valid write (key len %d, value len %d, in-memory %v, threshold %d) rejected: %v", i, len(key), vlen, c.InMemory, c.Threshold, werr)
			default:
				pending[string(key)] = c28Val{val: v, meta: op.Meta, deleted: op.Kind == 1}
			}
		case 2:
			item, gerr := txn.Get(key)
			want, ok := pending[string(key)]
			if !ok {
				want, ok = committed[string(key)]
			}
			switch {
			case len(key) == 0 || isBanned(key):
				if gerr == nil {
					return res, fmt.Errorf("op %d: Get of an empty/banned key (%x) succeeded", i, head(key))
				}
			case !ok || want.deleted:
				if gerr != badger.ErrKeyNotFound {
					return res, fmt.Errorf("op %d: Get(%x.. len %d) = %v, want ErrKeyNotFound", i, head(key), len(key), gerr)
				}
			default:
				if gerr != nil {
					return res, fmt.Errorf("op %d: Get(%x.. len %d) error %v, want a value of %d bytes", i, head(key), len(key), gerr, len(want.val))
				}
				got, _ := item.ValueCopy(nil)
				if !bytes.Equal(got, want.val) || item.UserMeta() != want.meta {
					return res, fmt.Errorf("op %d: Get(%x.. len %d) returned %d bytes meta %d, want %d bytes meta %d", i, head(key), len(key), len(got), item.UserMeta(), len(want.val), want.meta)
				}
			}
		case 3:
			if err := commit(); err != nil {
				return res, fmt.Errorf("op %d: %v", i, err)
			}
		case 4:
			if c.NSOffset >= 0 {
				// BanNamespace writes through the write channel; finish the open transaction first
				if err := commit(); err != nil {
					return res, fmt.Errorf("op %d: %v", i, err)
				}
				ns := uint64(op.NS % 3)
				if err := db.BanNamespace(ns); err != nil {
					return res, fmt.Errorf("op %d: BanNamespace(%d): %v", i, ns, err)
				}
				banned[ns] = true
				txn.Discard()
				txn = db.NewTransaction(true)
			} else if err := db.BanNamespace(1); err == nil {
				return res, fmt.Errorf("op %d: BanNamespace succeeded although NamespaceOffset is not set", i)
			}
		}
	}
	if err := commit(); err != nil {
		return res, err
	}
	// everything accepted round-trips; banned keys are skipped by iterators
	rtxn := db.NewTransaction(false)
	defer rtxn.Discard()
	var wantKeys []string
	for k, v := range committed {
		if !v.deleted && !isBanned([]byte(k)) {
			wantKeys = append(wantKeys, k)
		}
	}
	sort.Strings(wantKeys)
	it := rtxn.NewIterator(badger.DefaultIteratorOptions)
	defer it.Close()
	i := 0
	for it.Rewind(); it.Valid(); it.Next() {
		item := it.Item()
		if i >= len(wantKeys) || string(item.Key()) != wantKeys[i] {
			return res, fmt.Errorf("final scan: item %d is key %x.. (len %d), want %s", i, head(item.Key()), len(item.Key()), func() string {
				if i < len(wantKeys) {
					return fmt.Sprintf("%x.. (len %d)", head([]byte(wantKeys[i])), len(wantKeys[i]))
				}
				return "end of iteration"
			}())
		}
		got, _ := item.ValueCopy(nil)
		if w := committed[wantKeys[i]]; !bytes.Equal(got, w.val) || item.UserMeta() != w.meta {
			return res, fmt.Errorf("final scan: key %x.. value/meta differ from what was accepted", head(item.Key()))
		}
		i++
	}
	if i != len(wantKeys) {
		return res, fmt.Errorf("final scan yielded %d keys, want %d", i, len(wantKeys))
	}
	res.NonTrivial = atLimit
	if atLimit {
		res.Classes = append(res.Classes, "input_exactly_at_a_limit")
	}
	if rejected {
		res.Classes = append(res.Classes, "rejected_write")
	}
	if len(banned) > 0 {
		res.Classes = append(res.Classes, "banned_namespace")
	}
	if c.InMemory {
		res.Classes = append(res.Classes, "inmemory")
	}
	return res, nil
}

func TestC28_Validation(t *testing.T) {
	core.Run(t, "C28", "validation",
		"rapid-generated sequences of 1-40 Set/Delete/Get/Commit/BanNamespace calls with boundary inputs: key lengths {0, 1, 3, 64999, 65000, 65001}, !badger!-prefixed keys, namespaced keys (NamespaceOffset -1/0/3, namespaces 0-2, keys of exactly offset+8 bytes), value lengths {0, T-1, T, T+1, 10, 700, ValueLogFileSize, ValueLogFileSize+1} around the threshold T (16/64/1024), in-memory or on disk, memtable 8 KiB-8 MiB (batch limits). Oracle: the listed invalid inputs return a non-nil error without panicking and leave the transaction unaffected; banned keys are rejected by Set/Delete/Get and skipped by iterators; every other write is accepted (or answered with ErrTxnTooBig, after which the harness commits and retries) and round-trips through Get and a final scan; Commit never returns ErrTxnTooBig once all writes were accepted. Non-trivial = >=1 input exactly at a limit.",
		genC28, runC28)
}
