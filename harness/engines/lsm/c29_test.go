package lsm

import (
	"bytes"
	"fmt"
	"math"
	"runtime"
	"sync"
	"sync/atomic"
	"testing"
	"time"

	badger "github.com/dgraph-io/badger/v4"
	"pgregory.net/rapid"

	"verifharness/internal/core"
	"verifharness/internal/dbx"
	"verifharness/internal/evid"
	"verifharness/internal/model"
)

// ---- C29: DropAll and DropPrefix remove exactly the requested data, durably --------------------------

func (in *Interp) storedVersions(k []byte) int {
	txn, _ := in.newReader()
	defer txn.Discard()
	it := txn.NewKeyIterator(k, badger.IteratorOptions{AllVersions: true})
	defer it.Close()
	n := 0
	for it.Rewind(); it.Valid(); it.Next() {
		n++
	}
	return n
}

func dropPrefixOp(in *Interp, op Op) error {
	in.dropAllTxns()
	in.sampleWatermark()
	var prefixes [][]byte
	for i, n := 0, 1+op.A%3; i < n; i++ {
		k := in.key(op.Key + i*5)
		p := append([]byte{}, k[:1+(op.B>>(2*i))%len(k)]...)
		if (op.A>>(4+i))%5 == 0 {
			p = append(p, 0x7f) // matches nothing
		}
		prefixes = append(prefixes, p)
	}
	match := func(k []byte) bool {
		for _, p := range prefixes {
			if bytes.HasPrefix(k, p) {
				return true
			}
		}
		return false
	}
	visibleBefore := 0
	for _, k := range in.allKeys() {
		if match(k) && in.m.Visible(k, math.MaxUint64) != nil {
			visibleBefore++
		}
	}
	if err := in.db.DropPrefix(prefixes...); err != nil {
		return in.errf("DropPrefix(%x): %v", prefixes, err)
	}
	in.trace("DropPrefix(%x): %d visible keys matched", prefixes, visibleBefore)
	for _, k := range in.allKeys() {
		if !match(k) {
			continue
		}
		if in.m.Visible(k, math.MaxUint64) != nil {
			delete(in.m.Keys, string(k)) // must be gone: the sweep below reports it if it is not
			continue
		}
		// not visible before the drop: the drop may skip a prefix without visible keys; whatever
		// the store kept, the key stays invisible
		if in.storedVersions(k) == 0 {
			delete(in.m.Keys, string(k))
		}
	}
	in.epoch++
	in.noteLayout()
	in.Cnt["dropprefix"]++
	if visibleBefore > 0 {
		in.Cnt["dropprefix_removed_visible_keys"]++
	}
	if len(prefixes) > 1 {
		in.Cnt["dropprefix_several_prefixes"]++
	}
	if in.St.LevelsMax >= 2 {
		in.Cnt["drop_on_multilevel_tree"]++
	}
	return in.CheckAll()
}

func dropAllOp(in *Interp, op Op) error {
	in.dropAllTxns()
	n := len(in.m.Keys)
	if err := in.db.DropAll(); err != nil {
		return in.errf("DropAll: %v", err)
	}
	in.m.Keys = map[string][]model.Ver{}
	in.commits = nil
	in.conflictFrom = 0
	in.stale = nil
	in.epoch++
	in.noteLayout()
	in.Cnt["dropall"]++
	if n > 0 {
		in.Cnt["dropall_nonempty"]++
	}
	return in.CheckAll()
}

var wDrop = map[string]int{"txn": 10, "fill": 5, "deepen": 2, "flush": 4, "compact": 5, "dropprefix": 6, "dropall": 2, "l0shape": 1, "reopen": 3, "begin": 1, "get": 1, "iter": 1, "clock": 1}

func TestC29_Drop(t *testing.T) {
	core.Run(t, "C29", "sequential",
		"rapid-generated programs (managed/normal, in-memory, encryption; fills, flushes, compactions into several levels, value-log values, TTLs, open transactions, re-opens) with DropPrefix (1-3 prefixes derived from pool keys, some matching nothing) and DropAll in between; all transactions are closed before a drop. Oracle (reference model): right after the drop and after every later flush/compaction/re-open the full sweep (Get of every key, forward/reverse/all-versions scans) shows no key under a dropped prefix and every other key unchanged; after DropAll nothing; later writes (also under a dropped prefix) behave normally. Non-trivial = a DropPrefix removed >=1 visible key or a DropAll ran on a non-empty store.",
		func(rt *rapid.T) Program {
			return GenProgram(rt, GenCfg{DB: dbx.GenCfg{AllowInMemory: true, AllowManaged: true, AllowEnc: true, KeepVersions: []int{1, 2, 0}}, MinOps: 6, MaxOps: 40, Weights: wDrop, TTL: true, BigValues: true})
		},
		func(p Program, rec *evid.Rec) (core.Result, error) {
			in, err := Run(p, extSetup(map[string]func(*Interp, Op) error{"dropprefix": dropPrefixOp, "dropall": dropAllOp}))
			res := core.Result{Classes: classesOf(in.St, p), Excluded: in.St.Excluded}
			cntClasses(in, &res, rec)
			res.NonTrivial = in.Cnt["dropprefix_removed_visible_keys"] > 0 || in.Cnt["dropall_nonempty"] > 0
			return res, err
		})
}

func TestC29_DropMultiTable(t *testing.T) {
	core.Run(t, "C29", "sequential_multitable",
		"as part 'sequential' but on trees whose levels >=1 hold several small tables (2 KiB tables, values of several hundred bytes, pool x fan-out keys): DropPrefix then rewrites groups of tables per level (adjacent and non-adjacent matches, several prefixes at once), and the level structure is validated after every step. Non-trivial = a DropPrefix removed visible keys from a level with several tables.",
		func(rt *rapid.T) Program {
			return GenProgram(rt, GenCfg{DB: dbx.GenCfg{AllowManaged: true, AllowEnc: true, KeepVersions: []int{1, 2, 0}}, MinOps: 8, MaxOps: 36, BigValues: true, MinKeys: 6, MaxKeys: 12,
				Weights: map[string]int{"fill": 10, "deepen": 5, "txn": 4, "flush": 3, "compact": 5, "dropprefix": 8, "dropall": 1, "reopen": 2, "iter": 1, "begin": 1},
				FixSpec: func(s *dbx.Spec) {
					s.InMemory = false
					s.BaseTableSize = 1 << 11
					s.MemTableSize = 1 << 15
					s.BlockSize = 512
				}})
		},
		func(p Program, rec *evid.Rec) (core.Result, error) {
			in, err := Run(p, extSetup(map[string]func(*Interp, Op) error{"dropprefix": dropPrefixOp, "dropall": dropAllOp}))
			res := core.Result{Classes: classesOf(in.St, p), Excluded: in.St.Excluded}
			cntClasses(in, &res, rec)
			res.NonTrivial = in.Cnt["dropprefix_removed_visible_keys"] > 0 && in.St.MultiTableLevel > 0
			return res, err
		})
}

// ---- concurrent part: writers race with a drop -------------------------------------------------------

type c29Conc struct {
	Prog    Program `json:"prog"`
	Writers int     `json:"writers"`
	PerW    int     `json:"perw"`
	DropAt  int     `json:"dropat"` // the drop starts once this many commits were attempted
	All     bool    `json:"all"`    // DropAll instead of DropPrefix
	VSize   int     `json:"vsize"`
}

func runC29Conc(c c29Conc, rec *evid.Rec) (core.Result, error) {
	var res core.Result
	in := &Interp{P: c.Prog}
	if err := in.Open(); err != nil {
		return res, err
	}
	defer in.Close()
	if err := in.Exec(); err != nil {
		return res, err
	}
	in.dropAllTxns()
	db := in.db
	managed := c.Prog.Spec.Managed
	// two disjoint key families that the generated pool (bytes 00 01 61 62 fe ff) never produces
	pk := func(w, i, j int) []byte { return []byte(fmt.Sprintf("P/%02d/%03d/%d", w, i, j)) }
	qk := func(w, i int) []byte { return []byte(fmt.Sprintf("Q/%02d/%03d", w, i)) }
	type outcome struct{ err error }
	results := make([][]outcome, c.Writers)
	var attempted atomic.Int64
	var tsMu sync.Mutex
	ts := in.m.MaxVersion() + 10
	var wg sync.WaitGroup
	startDrop := make(chan struct{})
	var once sync.Once
	for w := 0; w < c.Writers; w++ {
		results[w] = make([]outcome, c.PerW)
		wg.Add(1)
		go func(w int) {
			defer wg.Done()
			for i := 0; i < c.PerW; i++ {
				if int(attempted.Add(1)) >= c.DropAt {
					once.Do(func() { close(startDrop) })
				}
				var txn *badger.Txn
				if managed {
					txn = db.NewTransactionAt(math.MaxUint64, true)
				} else {
					txn = db.NewTransaction(true)
				}
				v := val(w*1000+i, c.VSize)
				err := txn.Set(pk(w, i, 0), v)
				if err == nil {
					err = txn.Set(pk(w, i, 1), v)
				}
				if err == nil {
					err = txn.Set(qk(w, i), v)
				}
				if err == nil {
					if managed {
						tsMu.Lock()
						ts++
						t := ts
						tsMu.Unlock()
						err = txn.CommitAt(t, nil)
					} else {
						err = txn.Commit()
					}
				}
				txn.Discard()
				results[w][i] = outcome{err}
			}
		}(w)
	}
	var dropErr error
	wg.Add(1)
	go func() {
		defer wg.Done()
		<-startDrop
		if c.All {
			dropErr = db.DropAll()
		} else {
			dropErr = db.DropPrefix([]byte("P/"))
		}
	}()
	allDone := make(chan struct{})
	go func() { wg.Wait(); close(allDone) }()
	select {
	case <-allDone:
	case <-time.After(120 * time.Second):
		in.db = nil // wedged: do not try to close it
		buf := make([]byte, 1<<20)
		n := runtime.Stack(buf, true)
		return res, fmt.Errorf("the writers and the drop did not all return within 120 s (normal: milliseconds)\n%s", buf[:min(n, 8000)])
	}
	once.Do(func() { close(startDrop) })
	if dropErr != nil {
		return res, fmt.Errorf("drop: %v", dropErr)
	}
	check := func(label string, d *badger.DB) (int, int, int, error) {
		txn := reader(d, managed)
		defer txn.Discard()
		get := func(k []byte) ([]byte, bool, error) {
			item, err := txn.Get(k)
			if err == badger.ErrKeyNotFound {
				return nil, false, nil
			}
			if err != nil {
				return nil, false, err
			}
			v, err := item.ValueCopy(nil)
			return v, true, err
		}
		before, after, rejected := 0, 0, 0
		for w := 0; w < c.Writers; w++ {
			for i := 0; i < c.PerW; i++ {
				want := val(w*1000+i, c.VSize)
				p0, ok0, e0 := get(pk(w, i, 0))
				p1, ok1, e1 := get(pk(w, i, 1))
				q, okq, e2 := get(qk(w, i))
				if e0 != nil || e1 != nil || e2 != nil {
					return 0, 0, 0, fmt.Errorf("%s: reading the keys of transaction %d/%d: %v %v %v", label, w, i, e0, e1, e2)
				}
				for _, x := range []struct {
					v  []byte
					ok bool
				}{{p0, ok0}, {p1, ok1}, {q, okq}} {
					if x.ok && !bytes.Equal(x.v, want) {
						return 0, 0, 0, fmt.Errorf("%s: transaction %d/%d: a key holds a value nobody wrote", label, w, i)
					}
				}
				if results[w][i].err != nil {
					rejected++
					if ok0 || ok1 || okq {
						return 0, 0, 0, fmt.Errorf("%s: transaction %d/%d was rejected (%v) but left a visible trace (P0 %v, P1 %v, Q %v)", label, w, i, results[w][i].err, ok0, ok1, okq)
					}
					continue
				}
				if ok0 != ok1 {
					return 0, 0, 0, fmt.Errorf("%s: transaction %d/%d committed two keys under the dropped prefix; one survived the drop and the other did not (P0 %v, P1 %v): it took effect neither entirely before nor entirely after the drop", label, w, i, ok0, ok1)
				}
				switch {
				case c.All:
					if okq != ok0 {
						return 0, 0, 0, fmt.Errorf("%s: transaction %d/%d raced with DropAll and is partially present (P %v, Q %v)", label, w, i, ok0, okq)
					}
				case !okq:
					return 0, 0, 0, fmt.Errorf("%s: transaction %d/%d was acknowledged but its key outside the dropped prefix is missing", label, w, i)
				}
				if ok0 {
					after++
				} else {
					before++
				}
			}
		}
		return before, after, rejected, nil
	}
	before, after, rejected, err := check("after the drop", db)
	if err != nil {
		return res, err
	}
	// the database keeps accepting writes, also under the dropped prefix
	nk := []byte("P/after")
	upd := func(txn *badger.Txn) error { return txn.Set(nk, []byte("x")) }
	postDone := make(chan error, 1)
	go func() {
		if managed {
			txn := db.NewTransactionAt(math.MaxUint64, true)
			e := upd(txn)
			if e == nil {
				e = txn.CommitAt(ts+100, nil)
			}
			txn.Discard()
			postDone <- e
		} else {
			postDone <- db.Update(upd)
		}
	}()
	select {
	case err = <-postDone:
	case <-time.After(120 * time.Second):
		in.db = nil
		return res, fmt.Errorf("a write issued after the drop had returned did not return within 120 s: the database no longer accepts writes")
	}
	if err != nil {
		return res, fmt.Errorf("write after the drop: %v", err)
	}
	if !c.Prog.Spec.InMemory {
		in.db.Close()
		in.db = nil
		d2, err := c.Prog.Spec.Open(in.dir, nil)
		if err != nil {
			return res, fmt.Errorf("re-open after the drop: %v", err)
		}
		in.db = d2
		b2, a2, _, err := check("after the drop and a re-open", d2)
		if err != nil {
			return res, err
		}
		if b2 != before || a2 != after {
			return res, fmt.Errorf("re-open changed the outcome of the drop: %d/%d transactions dropped/kept before, %d/%d after the re-open", before, after, b2, a2)
		}
		txn := reader(d2, managed)
		_, err = txn.Get(nk)
		txn.Discard()
		if err != nil {
			return res, fmt.Errorf("the write issued after the drop is lost by the re-open: %v", err)
		}
	}
	rec.Add("txns_before_drop", before)
	rec.Add("txns_after_drop", after)
	rec.Add("txns_rejected", rejected)
	res.Classes = classesOf(in.St, c.Prog)
	if before > 0 && after > 0 {
		res.Classes = append(res.Classes, "commits_on_both_sides_of_the_drop")
	}
	if rejected > 0 {
		res.Classes = append(res.Classes, "commits_rejected_while_blocked")
	}
	if c.All {
		res.Classes = append(res.Classes, "dropall")
	}
	res.NonTrivial = before > 0 && (after > 0 || rejected > 0)
	return res, nil
}

func TestC29_DropConcurrent(t *testing.T) {
	core.Run(t, "C29", "concurrent",
		"a generated layout, then 2-6 writer goroutines commit transactions that each write two keys under the prefix P/ and one key under Q/ (unique keys, values around the threshold) while one goroutine runs DropPrefix(P/) or DropAll once a generated number of commits was attempted. Oracle (schedule independent): a rejected commit leaves no trace; an acknowledged commit's two P keys are both present or both absent (entirely before or after the drop); with DropPrefix its Q key is present, with DropAll all three agree; a write after the drop succeeds; Close + re-open shows the same outcome. Non-trivial = commits landed before the drop and also after it or were rejected by it.",
		func(rt *rapid.T) c29Conc {
			var c c29Conc
			c.Prog = GenProgram(rt, GenCfg{DB: dbx.GenCfg{AllowManaged: true, AllowInMemory: true, AllowEnc: true}, MinOps: 2, MaxOps: 12, BigValues: true,
				Weights: map[string]int{"fill": 6, "deepen": 2, "flush": 4, "compact": 4, "txn": 2},
				FixSpec: func(s *dbx.Spec) {
					if s.MemTableSize < 1<<14 {
						s.MemTableSize = 1 << 14
					}
				}})
			c.Writers = rapid.IntRange(2, 6).Draw(rt, "writers")
			c.PerW = rapid.IntRange(3, 20).Draw(rt, "perw")
			c.DropAt = rapid.IntRange(1, c.Writers*c.PerW).Draw(rt, "dropat")
			c.All = rapid.IntRange(0, 3).Draw(rt, "all") == 0
			c.VSize = rapid.SampledFrom([]int{1, 20, 70, 200}).Draw(rt, "vsize")
			if c.Prog.Spec.InMemory && c.VSize > int(c.Prog.Spec.ValueThreshold) {
				c.VSize = int(c.Prog.Spec.ValueThreshold)
			}
			return c
		}, runC29Conc)
}
