package lsm

import (
	"fmt"
	"os"
	"path/filepath"
	"sort"
	"strings"
	"testing"

	"pgregory.net/rapid"

	"verifharness/internal/core"
	"verifharness/internal/dbx"
	"verifharness/internal/evid"
)

// regularFDs lists the regular files this process has open (path -> true).
func regularFDs() map[string]bool {
	out := map[string]bool{}
	ents, err := os.ReadDir("/proc/self/fd")
	if err != nil {
		return out
	}
	for _, e := range ents {
		target, err := os.Readlink(filepath.Join("/proc/self/fd", e.Name()))
		if err != nil || !strings.HasPrefix(target, "/") {
			continue
		}
		if strings.HasPrefix(target, "/sys/") || strings.HasPrefix(target, "/proc/") {
			continue // kernel pseudo files the Go runtime and libraries read now and then (cpu topology, cgroup limits): not storage
		}
		st, err := os.Stat(target)
		if err == nil && st.Mode().IsRegular() {
			out[target] = true
		}
	}
	return out
}

func listDir(dir string) string {
	ents, _ := os.ReadDir(dir)
	var names []string
	for _, e := range ents {
		names = append(names, e.Name())
	}
	sort.Strings(names)
	return strings.Join(names, ",")
}

func TestC37_InMemory(t *testing.T) {
	cfg := GenCfg{DB: dbx.GenCfg{AllowManaged: true, KeepVersions: []int{1, 2, 0}}, MinOps: 10, MaxOps: 50, TTL: true, Discard: true, CapToThreshold: true,
		Weights: map[string]int{"txn": 10, "begin": 3, "set": 4, "del": 1, "get": 4, "iter": 4, "commit": 3, "discard": 1, "flush": 5, "compact": 7, "fill": 4, "l0l0": 1, "deepen": 2, "l0shape": 2, "clock": 1, "race": 1, "rwscan": 1},
		FixSpec: func(s *dbx.Spec) { s.InMemory = true; s.EncKeyLen = 0 }}
	core.Run(t, "C37", "inmemory",
		"rapid-generated programs valid in both modes (values never above the value threshold, which is the in-memory limit; transactions, overwrites, deletes, TTL, flushes, picker-driven compactions incl. L0->L0, managed/normal) executed twice: on an InMemory DB and on an on-disk twin with otherwise identical options; both are compared read-by-read with the same reference model, hence with each other. During the in-memory run, after every operation: no regular file is open that was not open before Open, and the working directory and the (unused) scratch directory stay unchanged. Non-trivial = >=1 flush and >=1 compaction ran in memory mode.",
		func(rt *rapid.T) Program { return GenProgram(rt, cfg) },
		func(p Program, rec *evid.Rec) (core.Result, error) {
			before := regularFDs()
			cwd, _ := os.Getwd()
			cwdBefore := listDir(cwd)
			check := func(in *Interp) error {
				for f := range regularFDs() {
					if !before[f] {
						return in.Errf("in-memory DB has a regular file open: %s", f)
					}
				}
				if l := listDir(in.Dir()); l != "" {
					return in.Errf("in-memory DB created files in %s: %s", in.Dir(), l)
				}
				if l := listDir(cwd); l != cwdBefore {
					return in.Errf("working directory changed during an in-memory session: %q -> %q", cwdBefore, l)
				}
				return nil
			}
			mem, err := Run(p, func(in *Interp) { in.AfterOp = check })
			res := core.Result{Classes: classesOf(mem.St, p), Excluded: mem.St.Excluded}
			res.NonTrivial = mem.St.Flushes > 0 && mem.St.Compactions > 0
			if err != nil {
				return res, fmt.Errorf("in-memory run: %v", err)
			}
			disk := p
			disk.Spec.InMemory = false
			d, err := Run(disk, nil)
			res.Excluded += d.St.Excluded
			if err != nil {
				return res, fmt.Errorf("on-disk twin: %v", err)
			}
			return res, nil
		})
}
