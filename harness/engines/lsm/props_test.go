package lsm

import (
	"os"
	"testing"

	"pgregory.net/rapid"

	"verifharness/internal/core"
	"verifharness/internal/dbx"
	"verifharness/internal/evid"
)

type propDef struct {
	id, part, rule string
	cfg            GenCfg
	nontrivial     func(s Stats, p Program) bool
	setup          func(in *Interp)
}

func classesOf(s Stats, p Program) []string {
	var c []string
	add := func(cond bool, name string) {
		if cond {
			c = append(c, name)
		}
	}
	add(s.Flushes > 0, "flush")
	add(s.Compactions > 0, "compaction")
	add(s.L0toL0 > 0, "l0_to_l0")
	add(s.CompactAfterDelete > 0, "compaction_after_delete")
	add(s.Reopens > 0, "reopen")
	add(s.GCRewrites > 0, "gc_rewrote")
	add(s.Conflicts > 0, "conflict")
	add(s.LevelsMax >= 2, "levels>=2")
	add(s.LevelsMax >= 3, "levels>=3")
	add(s.TablesMax >= 4, "tables>=4")
	add(s.IterAll > 0, "iter_allversions")
	add(s.IterRev > 0, "iter_reverse")
	add(s.IterPrefix > 0, "iter_prefix")
	add(s.IterSince > 0, "iter_sincets")
	add(s.HeldIter > 0, "held_iterator")
	add(s.PendingShadow > 0, "pending_shadows_committed")
	add(s.ReadsAcrossMaint > 0, "read_across_commit_or_maintenance")
	add(s.VlogValues > 0, "vlog_values")
	add(s.Expiring > 0, "ttl_entries")
	add(s.ClockAdvances > 0, "clock_advanced")
	add(p.Spec.Managed, "managed")
	add(p.Spec.InMemory, "inmemory")
	add(p.Spec.EncKeyLen > 0, "encrypted")
	add(p.Spec.Compression > 0, "compressed")
	add(s.Excluded > 0, "excluded_known")
	add(s.HitKnown > 0, "stopped_at_known_finding")
	add(s.ReadOnlyOpens > 0, "readonly_open")
	add(s.MultiTableLevel > 0, "multi_table_level")
	add(s.ThresholdCrossed > 0, "dynamic_threshold_moved")
	add(s.ExpiredObserved > 0, "expired_observed")
	add(s.CompactAfterExpiry > 0, "compaction_after_expiry")
	add(s.HeldItems > 0, "held_get_item")
	add(s.GCPauseOps > 0, "ops_inside_paused_gc_rewrite")
	add(s.ManagedLowerWrite > 0, "managed_write_below_existing")
	add(s.DiscardMoves > 0, "discardts_raised")
	add(s.CommitsAfterReopen > 0, "commit_after_reopen")
	add(s.CompactedMultiVersion > 0, "compacted_multiversion_key")
	return c
}

func runProp(t *testing.T, d propDef) {
	core.Run(t, d.id, d.part, d.rule,
		func(rt *rapid.T) Program { return GenProgram(rt, d.cfg) },
		func(p Program, rec *evid.Rec) (core.Result, error) {
			setup := d.setup
			if os.Getenv("VERIF_STRICT") != "" { // development aid: hunt for witnesses of known findings
				setup = strictSetup
				if os.Getenv("VERIF_STRICT") == "stale" {
					setup = func(in *Interp) { in.StrictStale = true }
				}
			}
			in, err := Run(p, setup)
			res := core.Result{Classes: classesOf(in.St, p), Excluded: in.St.Excluded}
			if d.nontrivial != nil {
				res.NonTrivial = d.nontrivial(in.St, p)
			}
			rec.Add("commits", in.St.Commits)
			rec.Add("compactions", in.St.Compactions)
			rec.Add("flushes", in.St.Flushes)
			rec.Add("checkalls", in.St.CheckAlls)
			return res, err
		})
}

var wTxnMaint = map[string]int{"txn": 10, "begin": 3, "set": 4, "del": 1, "get": 4, "iter": 3, "commit": 3, "discard": 1,
	"flush": 5, "compact": 8, "backdate": 1, "reopen": 1, "gc": 1, "fill": 4, "l0l0": 1, "churn": 1, "deepen": 2, "l0shape": 3}

func TestC12_CompactionPreservesReads(t *testing.T) {
	runProp(t, propDef{id: "C12", part: "compaction",
		rule: "rapid-generated programs (options incl. level/table/memtable sizes, L0 table counts, managed/normal, in-memory, compression, encryption; 3-12 keys over a 6-byte alphabet; 8-60 ops: small transactions with overwrites/deletes, open reader transactions, Flush, Compact(level, worker id, priority = forced / worker-0 low-adjusted (L0->L0 fallback) / the production picker's own), table backdating (10 s / 1 h age gates), GC, reopen). After every flush/compaction/GC/reopen a full Get + forward + reverse + all-versions sweep of a fresh reader and Gets in every open transaction are compared with the reference MVCC model. Non-trivial = >=1 compaction ran after >=1 committed delete or overwrite and the tree had >=2 levels.",
		cfg:  GenCfg{DB: dbx.GenCfg{AllowInMemory: true, AllowManaged: true, AllowEnc: true, KeepVersions: []int{1, 1, 2, 3, 0}}, MinOps: 8, MaxOps: 60, Weights: wTxnMaint, Hold: true, BigValues: true},
		nontrivial: func(s Stats, p Program) bool {
			return s.Compactions > 0 && (s.Deletes > 0 || s.Overwrites > 0) && s.LevelsMax >= 2
		},
	})
}

// deepCfg builds trees with three or more populated levels (small level sizes, several rounds of
// sizeable fills pushed down), on which deletes / TTL entries / overwrites are then compacted level by level.
func deepCfg(ttl bool) GenCfg {
	return GenCfg{DB: dbx.GenCfg{AllowManaged: true, KeepVersions: []int{1, 1, 2, 0}}, MinOps: 8, MaxOps: 30, MinKeys: 4, MaxKeys: 10, TTL: ttl, Discard: true, BigValues: true,
		Weights: map[string]int{"deepen": 8, "txn": 8, "fill": 2, "flush": 4, "compact": 10, "clock": 2, "begin": 2, "get": 2, "iter": 1, "discard": 1, "l0shape": 1, "reopen": 1},
		FixSpec: func(s *dbx.Spec) {
			s.MaxLevels = 4
			s.BaseLevelSize = 1 << 12
			s.LevelSizeMultiplier = 2
			s.BaseTableSize = 1 << 11
			s.MemTableSize = 1 << 15
			s.InMemory = false
		}}
}

func TestC12_DeepLevels(t *testing.T) {
	runProp(t, propDef{id: "C12", part: "deep_levels",
		rule: "as part 'compaction' but on trees with >=3 populated levels (MaxLevels 4, 4 KiB base level, multiplier 2, 2 KiB tables; 'deepen' macros push several rounds of sizeable fills down), so that versions of one key live two or more levels apart while deletes, expired entries and overwrites are compacted level by level (level-to-level picks, overlap checks against deeper levels). Non-trivial = >=3 levels were populated and a compaction ran after a delete/overwrite.",
		cfg:  deepCfg(true),
		nontrivial: func(s Stats, p Program) bool {
			return s.LevelsMax >= 3 && s.CompactAfterDelete+s.CompactAfterExpiry > 0
		},
	})
}

func TestC33_ExpiryDeepLevels(t *testing.T) {
	runProp(t, propDef{id: "C33", part: "expiry_deep_levels",
		rule: "as part 'expiry' but on trees with >=3 populated levels (see C12 part deep_levels): expired newest versions sit above older live versions that are two or more levels deeper when compactions run. Non-trivial = >=3 levels populated, an entry observed expired and a compaction after that.",
		cfg:  deepCfg(true),
		nontrivial: func(s Stats, p Program) bool {
			return s.LevelsMax >= 3 && s.ExpiredObserved > 0 && s.CompactAfterExpiry > 0
		},
	})
}

func TestC12_L0ToL0(t *testing.T) {
	runProp(t, propDef{id: "C12", part: "l0_to_l0",
		rule: "as part 'compaction' but aimed at worker 0's L0->L0 compactions: 8-16 KiB memtables with inline values up to 1 KiB, 'l0big' macros (four sizeable L0 tables merged into one table of >= 2x the memtable size, which later L0->L0 picks leave out), 'l0l0'/'l0shape' macros, deletes and overwrites between them, young (not yet aged) tables next to aged ones. Non-trivial = >=2 L0->L0 compactions ran, with deletes or overwrites committed between them.",
		cfg: GenCfg{DB: dbx.GenCfg{AllowManaged: true, KeepVersions: []int{1, 1, 2, 0}}, MinOps: 6, MaxOps: 30, MinKeys: 3, MaxKeys: 8,
			Weights: map[string]int{"l0big": 3, "l0l0": 4, "l0shape": 3, "txn": 8, "begin": 2, "get": 2, "commit": 2, "flush": 3, "compact": 3, "backdate": 2, "del": 2, "set": 1, "reopen": 1},
			FixSpec: func(s *dbx.Spec) {
				s.MemTableSize = 1 << 13
				s.ValueThreshold = 1024
				s.VLogPercentile = 0
				s.InMemory = false
			}},
		nontrivial: func(s Stats, p Program) bool { return s.L0toL0 >= 2 && (s.Deletes > 0 || s.Overwrites > 0) },
	})
}

// ---- more properties on the same interpreter -------------------------------------------------------

var wSnapshot = map[string]int{"l0shape": 2, "race": 2, "rwscan": 2, "txn": 10, "begin": 6, "set": 3, "del": 1, "get": 8, "gethold": 2, "itemread": 2, "iter": 6, "iterdrain": 2,
	"commit": 3, "discard": 1, "flush": 4, "compact": 6, "backdate": 1, "gc": 2, "clock": 2, "fill": 3, "churn": 2, "l0l0": 1, "deepen": 1}

func TestC01_SnapshotReads(t *testing.T) {
	runProp(t, propDef{id: "C01", part: "snapshot",
		rule: "rapid-generated multi-transaction programs on one goroutine (up to 4 open read-only/read-write transactions interleaved at API-call granularity with commits of other transactions, Flush, picker-driven Compact incl. L0->L0, GC, table backdating, virtual-clock advances; TTL entries; iterators and Get items held open across those steps; all option combinations incl. in-memory, encryption, compression, managed). Every Get, iterator item and value read by every transaction is compared with the reference MVCC model at that transaction's read timestamp (own pending writes layered on top). Non-trivial = a transaction read a key after a later commit or a flush/compaction/GC happened while it was open, with >=2 transactions open at once and >=1 flush or compaction in the program.",
		cfg:  GenCfg{DB: dbx.GenCfg{AllowInMemory: true, AllowManaged: true, AllowEnc: true}, MinOps: 10, MaxOps: 60, Weights: wSnapshot, Hold: true, TTL: true, BigValues: true},
		nontrivial: func(s Stats, p Program) bool {
			return s.ReadsAcrossMaint > 0 && s.ConcurrentTxnReads > 0 && s.Flushes+s.Compactions+s.GCRewrites > 0
		},
	})
}

var wSSI = map[string]int{"begin": 6, "set": 6, "del": 2, "get": 6, "iter": 4, "commit": 6, "discard": 1, "txn": 4, "race": 6, "rwscan": 2, "flush": 1, "compact": 1, "discardts": 1}

func TestC02_SSI(t *testing.T) {
	runProp(t, propDef{id: "C02", part: "sequential",
		rule: "rapid-generated programs with DetectConflicts on, normal and managed mode: up to 4 overlapping read-write transactions on 3-8 keys doing Get / iterator items / Seek / Set / Delete, committed in generated order (managed: caller timestamps, discard timestamp raised in between), long-running transactions that stay open across many commits. Oracle (exact, both directions): Commit returns ErrConflict iff a tracked read key (Get outside own writes, yielded iterator item, Seek key) was written by a transaction whose commit timestamp is above the reader's read timestamp; a rejected transaction's writes never become visible (model comparison of all later reads). Non-trivial = program with >=1 ErrConflict and >=2 successful commits.",
		cfg: GenCfg{DB: dbx.GenCfg{AllowManaged: true}, MinOps: 10, MaxOps: 50, Weights: wSSI, MinKeys: 2, MaxKeys: 6, MaxFan: 1,
			FixSpec: func(s *dbx.Spec) { s.DetectConflicts = true }},
		nontrivial: func(s Stats, p Program) bool { return s.Conflicts > 0 && s.Commits >= 2 },
	})
}

var wPending = map[string]int{"txn": 8, "rwscan": 10, "begin": 3, "set": 6, "del": 2, "get": 4, "iter": 6, "commit": 2, "discard": 1, "flush": 1, "compact": 1, "clock": 1}

func TestC04_OwnWrites(t *testing.T) {
	runProp(t, propDef{id: "C04", part: "pending",
		rule:       "rapid-generated programs dominated by Set/SetEntry(meta, TTL past/now/future, WithDiscard)/Delete/Get and iterators (forward/reverse, Prefix, SinceTs, AllVersions, key iterators, Seek) created after some writes inside read-write transactions, over a committed snapshot sharing the same keys, with other transactions reading concurrently. Oracle = model overlay: a pending entry appears at version readTs and wins over a committed entry with the same internal key, a pending delete hides the key; other transactions never see pending data. Non-trivial = an iterator ran over >=1 pending write that shadows a committed version of the same key.",
		cfg:        GenCfg{DB: dbx.GenCfg{AllowInMemory: true, AllowManaged: true}, MinOps: 10, MaxOps: 40, Weights: wPending, TTL: true, Discard: true, MinKeys: 3, MaxKeys: 8, MaxFan: 2},
		nontrivial: func(s Stats, p Program) bool { return s.PendingShadow > 0 },
	})
}

var wIter = map[string]int{"txn": 8, "begin": 4, "set": 2, "get": 1, "iter": 16, "commit": 2, "flush": 5, "compact": 5, "fill": 5, "deepen": 2, "l0l0": 1, "reopen": 1, "clock": 1}

func TestC05_Iterators(t *testing.T) {
	runProp(t, propDef{id: "C05", part: "iterators",
		rule: "rapid-generated layouts (keys over {00,01,a,b,FE,FF} that are prefixes of one another, fanned out to up to 96 keys; version histories spread by Flush/Compact/deepen macros over memtable, several L0 tables and deeper levels) and iterator programs: Rewind/Seek/Next with Reverse, Prefix (seeks inside the prefix incl. the prefix+0xFF idiom), SinceTs, AllVersions, NewKeyIterator, PrefetchValues on/off, PrefetchSize {0,1,2,100}. Oracle = model.Scan: exact sequence for non-AllVersions; for AllVersions mustRetain ⊆ seen ⊆ written in iterator order. Non-trivial = program iterated with at least two of {reverse, prefix, SinceTs, AllVersions} over a tree with >=2 levels after >=1 flush.",
		cfg:  GenCfg{DB: dbx.GenCfg{AllowInMemory: true, AllowManaged: true, AllowEnc: true, KeepVersions: []int{1, 2, 0}}, MinOps: 10, MaxOps: 50, Weights: wIter, TTL: true, Discard: true, BigValues: true},
		nontrivial: func(s Stats, p Program) bool {
			n := 0
			for _, v := range []int{s.IterRev, s.IterPrefix, s.IterSince, s.IterAll} {
				if v > 0 {
					n++
				}
			}
			return n >= 2 && s.LevelsMax >= 2 && s.Flushes > 0
		},
	})
}

func TestC05_IteratorsMultiTable(t *testing.T) {
	runProp(t, propDef{id: "C05", part: "iterators_multitable",
		rule: "as part 'iterators' but on trees whose levels >=1 hold several small tables (2 KiB tables, values of several hundred bytes, pool x fan-out keys), so that the per-level table selection (prefix bounds, SinceTs filtering, concatenated iteration, reverse seeks across table boundaries) is exercised. Non-trivial = iterators with a Prefix or SinceTs ran while some level >=1 held >=2 tables.",
		cfg: GenCfg{DB: dbx.GenCfg{AllowManaged: true, AllowEnc: true, KeepVersions: []int{1, 2, 0}}, MinOps: 10, MaxOps: 40, TTL: true, BigValues: true, MinKeys: 6, MaxKeys: 12,
			Weights: map[string]int{"fill": 8, "deepen": 4, "txn": 4, "flush": 3, "compact": 5, "iter": 16, "begin": 3, "discard": 1, "l0shape": 1},
			FixSpec: func(s *dbx.Spec) { s.BaseTableSize = 1 << 11; s.MemTableSize = 1 << 15; s.BlockSize = 512 }},
		nontrivial: func(s Stats, p Program) bool { return s.MultiTableLevel > 0 && (s.IterPrefix > 0 || s.IterSince > 0) },
	})
}

var wValues = map[string]int{"txn": 12, "begin": 3, "set": 6, "get": 6, "gethold": 1, "itemread": 1, "iter": 5, "commit": 3, "flush": 3, "compact": 3, "gc": 2, "churn": 2, "reopen": 2, "fill": 3}

func TestC06_ValuesRoundTrip(t *testing.T) {
	runProp(t, propDef{id: "C06", part: "values",
		rule: "rapid-generated programs writing values of sizes {0,1,5,T-1,T,T+1,2T,block+-1,700,4096} around the value threshold T (static, or dynamic with VLogPercentile 0.5/0.99 so the threshold moves during the run) with user-meta bytes, expiry and the discard-earlier flag, read back through Get, Item.Value, Item.ValueCopy, prefetching and non-prefetching iterators (all options), before and after Flush, Compact, GC, re-open. Oracle = exact equality of value bytes, user meta, expiry, version and discard flag with the model. Non-trivial = values on both sides of the threshold were written and read after the dynamic threshold moved or after a flush+compaction.",
		cfg:  GenCfg{DB: dbx.GenCfg{AllowEnc: true, AllowManaged: true}, MinOps: 10, MaxOps: 50, Weights: wValues, TTL: true, Discard: true, BigValues: true},
		nontrivial: func(s Stats, p Program) bool {
			return s.VlogValues > 0 && (s.ThresholdCrossed > 0 || (s.Flushes > 0 && s.Compactions > 0))
		},
	})
}

var wReopen = map[string]int{"txn": 10, "begin": 2, "set": 3, "get": 2, "iter": 2, "commit": 2, "flush": 3, "compact": 3, "gc": 1, "churn": 1, "reopen": 6, "fill": 3, "deepen": 1}

func TestC07_CloseReopen(t *testing.T) {
	runProp(t, propDef{id: "C07", part: "reopen",
		rule:       "rapid-generated histories (transactions, flushes, compactions, GC) with Close -> Open cycles in three modes: read-write, read-write with different compaction settings (L0 table count, table/level sizes, level multiplier, CompactL0OnClose), and read-only followed by read-write. After every open the full state (Get of every key, forward/reverse/all-versions scans) is compared with the model; around a read-only session the SHA-256 digest of all files (names, sizes, contents; LOCK excluded) must be identical before, during and after. Non-trivial = a close with a non-empty memtable or after >=1 compaction, followed by a re-open and further reads, with >=1 value in the value log.",
		cfg:        GenCfg{DB: dbx.GenCfg{AllowEnc: true, AllowManaged: true, KeepVersions: []int{1, 2, 0}}, MinOps: 8, MaxOps: 50, Weights: wReopen, TTL: true, BigValues: true},
		nontrivial: func(s Stats, p Program) bool { return s.Reopens > 0 && s.VlogValues > 0 && s.Commits > 0 },
	})
}

func TestC11_TimestampsAfterReopen(t *testing.T) {
	runProp(t, propDef{id: "C11", part: "reopen",
		rule:       "rapid-generated histories ending in clean Close/Open cycles (incl. CompactL0OnClose, changed compaction settings, read-only sessions), followed by new commits to existing keys. Oracle: every commit's observed timestamp is above DB.MaxVersion() taken just before it, above the previous commit's timestamp and above the transaction's read timestamp; reads at new timestamps return the new writes (model comparison). Timestamp restart after a compaction dropped all entries of the newest commits is accepted (nothing stored is above the restart point). Non-trivial = >=1 commit to an existing key after a re-open, with data in >=1 flushed table.",
		cfg:        GenCfg{DB: dbx.GenCfg{AllowEnc: true, KeepVersions: []int{1, 2}, ForceNormal: true}, MinOps: 8, MaxOps: 50, Weights: wReopen, BigValues: true},
		nontrivial: func(s Stats, p Program) bool { return s.CommitsAfterReopen > 0 && s.Flushes > 0 && s.Overwrites > 0 },
	})
}

var wRetention = map[string]int{"txn": 14, "begin": 3, "get": 1, "iter": 4, "commit": 2, "discard": 1, "flush": 4, "compact": 8, "clock": 2, "fill": 2, "l0l0": 1, "deepen": 1, "discardts": 3, "reopen": 1}

func TestC13_Retention(t *testing.T) {
	runProp(t, propDef{id: "C13", part: "retention",
		rule:       "rapid-generated version histories (few keys, many overwrites, deletes, WithDiscard entries, TTL entries with a virtual clock) under NumVersionsToKeep in {1,2,3,unbounded}, with the watermark held back by open transactions (normal mode) or moved by SetDiscardTs (managed), and multi-step compactions. Oracle: after every compaction an AllVersions scan must contain every version in mustRetain (all versions above the largest watermark any compaction can have seen; below it the newest N non-merge versions up to and excluding a delete/expired entry, up to and including a discard-earlier entry) and only written versions, in order. Non-trivial = a key with >=2 versions went through >=1 compaction while NumVersionsToKeep > 1 or a transaction/discard timestamp held the watermark back.",
		cfg:        GenCfg{DB: dbx.GenCfg{AllowManaged: true, AllowInMemory: true, KeepVersions: []int{1, 2, 3, 0}}, MinOps: 10, MaxOps: 60, Weights: wRetention, TTL: true, Discard: true, MinKeys: 2, MaxKeys: 6},
		nontrivial: func(s Stats, p Program) bool { return s.CompactedMultiVersion > 0 && s.IterAll > 0 },
	})
}

func TestC13_RetentionMultiTable(t *testing.T) {
	runProp(t, propDef{id: "C13", part: "retention_multitable",
		rule: "as part 'retention' but with many keys (pool x fan-out), values of several hundred bytes and a 2 KiB table size, so that compaction outputs span several tables and the per-key version accounting has to survive table boundaries; NumVersionsToKeep in {2,3,unbounded}. Non-trivial = a level >=1 held >=2 tables after compacting keys with >=2 versions.",
		cfg: GenCfg{DB: dbx.GenCfg{AllowManaged: true, KeepVersions: []int{2, 3, 0}}, MinOps: 10, MaxOps: 40, TTL: true, Discard: true, BigValues: true, MinKeys: 6, MaxKeys: 12,
			Weights: map[string]int{"fill": 10, "txn": 6, "deepen": 4, "flush": 4, "compact": 8, "iter": 2, "begin": 2, "discard": 1, "discardts": 2, "clock": 1, "l0shape": 1},
			FixSpec: func(s *dbx.Spec) { s.BaseTableSize = 1 << 11; s.MemTableSize = 1 << 15; s.BlockSize = 512 }},
		nontrivial: func(s Stats, p Program) bool { return s.MultiTableLevel > 0 && s.CompactedMultiVersion > 0 },
	})
}

func TestC14_Structure(t *testing.T) {
	runProp(t, propDef{id: "C14", part: "structure",
		rule: "rapid-generated histories of writes, flushes, picker-driven compactions (incl. split sub-compactions on multi-table levels), GC and re-opens with small table sizes. After every maintenance step: the production level validation passes, every level >=1 is sorted and its tables are disjoint by USER key (stronger than validate(): all versions of a key in one table); after every Open the *.sst files on disk are exactly the tables of the tree. Non-trivial = some level >=1 held >=2 tables after a compaction.",
		cfg: GenCfg{DB: dbx.GenCfg{AllowEnc: true, AllowManaged: true, KeepVersions: []int{1, 3, 0}}, MinOps: 10, MaxOps: 50, BigValues: true,
			Weights: map[string]int{"txn": 6, "fill": 8, "deepen": 4, "flush": 4, "compact": 8, "l0l0": 1, "reopen": 2, "gc": 1, "iter": 1},
			FixSpec: func(s *dbx.Spec) { s.BaseTableSize = 1 << 11; s.MemTableSize = 1 << 15 }},
		nontrivial: func(s Stats, p Program) bool { return s.MultiTableLevel > 0 && s.Compactions > 0 },
	})
}

var wExpiry = map[string]int{"txn": 12, "begin": 3, "set": 4, "get": 8, "iter": 5, "commit": 2, "flush": 3, "compact": 5, "gc": 1, "clock": 8, "churn": 1, "reopen": 1}

func TestC33_Expiry(t *testing.T) {
	runProp(t, propDef{id: "C33", part: "expiry",
		rule: "rapid-generated histories mixing entries with ExpiresAt relative to a virtual clock (already past, exactly now, +1..+100 s, none), deletes and overwrites, with clock advances between reads, flushes, compactions, GC and re-opens; read through Get and all iterator kinds. Oracle: an entry is returned iff expiresAt == 0 or clock < expiresAt; an expired newest version hides older versions like a delete; a newer non-expiring write is visible. Non-trivial = an entry was observed expired (after being written live) and a compaction ran afterwards.",
		cfg:  GenCfg{DB: dbx.GenCfg{AllowInMemory: true, AllowManaged: true, AllowEnc: true, KeepVersions: []int{1, 2, 0}}, MinOps: 10, MaxOps: 60, Weights: wExpiry, TTL: true, Discard: true, MinKeys: 2, MaxKeys: 8},
		nontrivial: func(s Stats, p Program) bool {
			return s.ExpiredObserved > 0 && s.CompactAfterExpiry > 0 && s.ClockAdvances > 0
		},
	})
}

var wManaged = map[string]int{"txn": 12, "begin": 5, "set": 4, "del": 1, "get": 8, "iter": 5, "commit": 5, "discard": 1, "flush": 8, "compact": 9, "discardts": 5, "fill": 3, "reopen": 1, "l0shape": 2, "deepen": 1}

func TestC36_Managed(t *testing.T) {
	runProp(t, propDef{id: "C36", part: "managed",
		rule: "rapid-generated managed-mode programs: NewTransactionAt(readTs), CommitAt(ts) with non-monotonic caller timestamps (1..60, bumped only to respect the documented discipline: above the discard timestamp, not equal to an existing version of a written key), reads at arbitrary timestamps >= discardTs, SetDiscardTs raises, Flush/Compact in between. Oracle: every read at ts returns the newest model version <= ts, Item.Version equals the caller's commit timestamp, and raising the discard timestamp plus compacting never changes reads at or above it. Non-trivial = >=1 commit below an existing version of the same key and >=1 compaction after a discard-timestamp raise.",
		cfg:  GenCfg{DB: dbx.GenCfg{ForceManaged: true, AllowInMemory: true, KeepVersions: []int{1, 2, 0}}, MinOps: 10, MaxOps: 60, Weights: wManaged, TTL: true, MinKeys: 2, MaxKeys: 8},
		nontrivial: func(s Stats, p Program) bool {
			return s.ManagedLowerWrite > 0 && s.DiscardMoves > 0 && s.Compactions > 0
		},
	})
}

func TestC19_BloomDB(t *testing.T) {
	runProp(t, propDef{id: "C19", part: "db",
		rule: "rapid-generated multi-table DBs built with bloom filters on (false-positive setting 0.01 or 0.5 on every table of every level), then Get of every key and key iterators (the bloom-filtered paths) compared with the model. Non-trivial = >=3 tables in the tree when keys were probed.",
		cfg: GenCfg{DB: dbx.GenCfg{AllowInMemory: true, AllowEnc: true}, MinOps: 8, MaxOps: 40,
			Weights: map[string]int{"txn": 6, "fill": 8, "flush": 6, "compact": 4, "get": 8, "iter": 6, "begin": 3, "deepen": 2},
			FixSpec: func(s *dbx.Spec) {
				if s.BloomFP == 0 {
					s.BloomFP = 0.5
				}
			}},
		nontrivial: func(s Stats, p Program) bool { return s.TablesMax >= 3 },
	})
}

// ---- known-finding witnesses: the same interpreter with every exclusion switched off -----------------

func strictSetup(in *Interp) { in.Strict = true }

// TestKF_Strict replays a saved program in Strict mode (no known-finding exclusions). It is only
// used through replay files under replays/<id>/known/.
func TestKF_Strict(t *testing.T) {
	if !core.Replaying() {
		t.Skip("witness runner: replay only")
	}
	runProp(t, propDef{id: "KF", part: "witness", rule: "witness replay", cfg: GenCfg{Weights: map[string]int{"flush": 1}, MinOps: 1, MaxOps: 1}, setup: strictSetup})
}

var wGC = map[string]int{"churn": 8, "txn": 6, "begin": 4, "get": 4, "gethold": 3, "itemread": 3, "iter": 4, "iterdrain": 2, "del": 3, "set": 2, "commit": 3,
	"flush": 3, "compact": 5, "gc": 6, "fill": 2, "reopen": 1, "clock": 1, "discardts": 1}

func TestC15_GCRace(t *testing.T) {
	runProp(t, propDef{id: "C15", part: "gc_race",
		rule: "rapid-generated programs around the 'gcrace' macro: values above the threshold are written, half of them overwritten, flushed and compacted (discard statistics), then RunValueLogGC runs and its rewrite is PAUSED between the scan and the write-back phase (the production pause point) while generated operations execute: (a) the keys being moved are deleted, the memtable is flushed and the tombstones are compacted down, (b) a new reader opens an iterator / takes Get items and keeps them, (c) moved keys are overwritten and flushed; afterwards held iterators and items are read, L0 is compacted and a full sweep runs. Interleaved with ordinary transactions, flushes, compactions, re-opens. Oracle: reference model throughout (a key deleted during the rewrite stays deleted after the write-back and any later compaction; values of iterators opened during the rewrite stay readable after the file was removed). Non-trivial = operations ran inside >=1 paused rewrite.",
		cfg: GenCfg{DB: dbx.GenCfg{AllowManaged: true, AllowEnc: true, KeepVersions: []int{1, 2, 0}}, MinOps: 4, MaxOps: 24, Hold: true, BigValues: true,
			Weights: map[string]int{"gcrace": 8, "txn": 5, "flush": 2, "compact": 4, "begin": 2, "get": 2, "iter": 2, "reopen": 1, "discardts": 1, "deepen": 4, "fill": 2},
			FixSpec: func(s *dbx.Spec) {
				s.InMemory = false
				s.ValueLogMaxEntries = 4
				if s.MaxLevels > 4 { // small, deep trees: the base level is often not the last one
					s.MaxLevels = 4
				}
				s.BaseLevelSize = 1 << 12
				s.LevelSizeMultiplier = 2
				s.BaseTableSize = 1 << 11
				s.MemTableSize = 1 << 15
				// fills stay inline (the tree really grows), the churned values go to the value log
				s.ValueThreshold = 1024
				s.VLogPercentile = 0
			}},
		nontrivial: func(s Stats, p Program) bool { return s.GCPauseOps > 0 },
	})
}

func TestC15_ValueLogGC(t *testing.T) {
	runProp(t, propDef{id: "C15", part: "gc",
		rule: "rapid-generated programs built around value log GC: 'churn' macros (values above the threshold written, overwritten or deleted, flushed and compacted so that discard statistics exist, with ValueLogMaxEntries 3..50 forcing file rotation) followed by RunValueLogGC with generated discard ratios, interleaved with commits, deletes, TTL expiry, flushes, picker-driven compactions, re-opens, and with iterators and Get items held open across the GC. Every read before and after is compared with the model (deleted keys must stay deleted after any later compaction/re-open; values of held iterator items must stay readable). Non-trivial = >=1 RunValueLogGC call really rewrote and removed a file and reads followed it.",
		cfg: GenCfg{DB: dbx.GenCfg{AllowManaged: true, AllowEnc: true, KeepVersions: []int{1, 2, 0}}, MinOps: 10, MaxOps: 50, Weights: wGC, Hold: true, TTL: true, BigValues: true,
			FixSpec: func(s *dbx.Spec) {
				if s.ValueLogMaxEntries > 50 {
					s.ValueLogMaxEntries = 5
				}
			}},
		nontrivial: func(s Stats, p Program) bool { return s.GCRewrites > 0 },
	})
}
