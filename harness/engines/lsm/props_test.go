package lsm

import (
	"testing"

	"pgregory.net/rapid"

	"verifharness/internal/core"
	"verifharness/internal/dbx"
	"verifharness/internal/evid"
)

type propDef struct {
	id, part, rule string
	cfg            GenCfg
	nontrivial     func(s Stats, p Program) bool
	setup          func(in *Interp)
}

func classesOf(s Stats, p Program) []string {
	var c []string
	add := func(cond bool, name string) {
		if cond {
			c = append(c, name)
		}
	}
	add(s.Flushes > 0, "flush")
	add(s.Compactions > 0, "compaction")
	add(s.L0toL0 > 0, "l0_to_l0")
	add(s.CompactAfterDelete > 0, "compaction_after_delete")
	add(s.Reopens > 0, "reopen")
	add(s.GCRewrites > 0, "gc_rewrote")
	add(s.Conflicts > 0, "conflict")
	add(s.LevelsMax >= 2, "levels>=2")
	add(s.LevelsMax >= 3, "levels>=3")
	add(s.TablesMax >= 4, "tables>=4")
	add(s.IterAll > 0, "iter_allversions")
	add(s.IterRev > 0, "iter_reverse")
	add(s.IterPrefix > 0, "iter_prefix")
	add(s.IterSince > 0, "iter_sincets")
	add(s.HeldIter > 0, "held_iterator")
	add(s.PendingShadow > 0, "pending_shadows_committed")
	add(s.ReadsAcrossMaint > 0, "read_across_commit_or_maintenance")
	add(s.VlogValues > 0, "vlog_values")
	add(s.Expiring > 0, "ttl_entries")
	add(s.ClockAdvances > 0, "clock_advanced")
	add(p.Spec.Managed, "managed")
	add(p.Spec.InMemory, "inmemory")
	add(p.Spec.EncKeyLen > 0, "encrypted")
	add(p.Spec.Compression > 0, "compressed")
	add(s.Excluded > 0, "excluded_known")
	return c
}

func runProp(t *testing.T, d propDef) {
	core.Run(t, d.id, d.part, d.rule,
		func(rt *rapid.T) Program { return GenProgram(rt, d.cfg) },
		func(p Program, rec *evid.Rec) (core.Result, error) {
			in, err := Run(p, d.setup)
			res := core.Result{Classes: classesOf(in.St, p), Excluded: in.St.Excluded}
			if d.nontrivial != nil {
				res.NonTrivial = d.nontrivial(in.St, p)
			}
			rec.Add("commits", in.St.Commits)
			rec.Add("compactions", in.St.Compactions)
			rec.Add("flushes", in.St.Flushes)
			rec.Add("checkalls", in.St.CheckAlls)
			return res, err
		})
}

var wTxnMaint = map[string]int{"txn": 10, "begin": 3, "set": 4, "del": 1, "get": 4, "iter": 3, "commit": 3, "discard": 1,
	"flush": 5, "compact": 8, "backdate": 1, "reopen": 1, "gc": 1, "fill": 4, "l0l0": 1, "churn": 1, "deepen": 2}

func TestC12_CompactionPreservesReads(t *testing.T) {
	runProp(t, propDef{id: "C12", part: "compaction",
		rule: "rapid-generated programs (options incl. level/table/memtable sizes, L0 table counts, managed/normal, in-memory, compression, encryption; 3-12 keys over a 6-byte alphabet; 8-60 ops: small transactions with overwrites/deletes, open reader transactions, Flush, Compact(level, worker id, priority = forced / worker-0 low-adjusted (L0->L0 fallback) / the production picker's own), table backdating (10 s / 1 h age gates), GC, reopen). After every flush/compaction/GC/reopen a full Get + forward + reverse + all-versions sweep of a fresh reader and Gets in every open transaction are compared with the reference MVCC model. Non-trivial = >=1 compaction ran after >=1 committed delete or overwrite and the tree had >=2 levels.",
		cfg:  GenCfg{DB: dbx.GenCfg{AllowInMemory: true, AllowManaged: true, AllowEnc: true, KeepVersions: []int{1, 1, 2, 3, 0}}, MinOps: 8, MaxOps: 60, Weights: wTxnMaint, Hold: true, BigValues: true},
		nontrivial: func(s Stats, p Program) bool {
			return s.Compactions > 0 && (s.Deletes > 0 || s.Overwrites > 0) && s.LevelsMax >= 2
		},
	})
}
