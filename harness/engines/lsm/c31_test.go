package lsm

import (
	"bytes"
	"encoding/binary"
	"fmt"
	"os"
	"testing"
	"time"

	badger "github.com/dgraph-io/badger/v4"
	"pgregory.net/rapid"

	"verifharness/internal/core"
	"verifharness/internal/dbx"
	"verifharness/internal/evid"
)

// ---- C31: a merge operator returns the fold of all added values ------------------------------------

type mOp struct {
	Kind string `json:"k"` // add, get, merge, flush, compact, reopen, newop, other
	Key  int    `json:"key"`
	Val  []byte `json:"v,omitempty"`
	A    int    `json:"a,omitempty"`
	B    int    `json:"b,omitempty"`
}

type c31Case struct {
	Spec       dbx.Spec `json:"spec"`
	Sum        bool     `json:"sum"`        // merge function: uint64 addition instead of byte append
	Background bool     `json:"background"` // the operator's own goroutine merges every millisecond
	Ops        []mOp    `json:"ops"`
}

var mergeKeys = [][]byte{[]byte("m"), []byte("m\x00"), []byte("m\xff")}

func appendFn(existing, val []byte) []byte { return append(append([]byte{}, existing...), val...) }

func sumFn(existing, val []byte) []byte {
	var a, b uint64
	if len(existing) >= 8 {
		a = binary.BigEndian.Uint64(existing)
	}
	if len(val) >= 8 {
		b = binary.BigEndian.Uint64(val)
	}
	out := make([]byte, 8)
	binary.BigEndian.PutUint64(out, a+b)
	return out
}

func genC31(t *rapid.T) c31Case {
	var c c31Case
	c.Spec = dbx.Gen(t, dbx.GenCfg{AllowInMemory: true, ForceNormal: true, AllowEnc: true, KeepVersions: []int{1, 1, 2, 0}})
	c.Spec.ExternalMagic, c.Spec.ManifestRewriteAt = 0, 0
	c.Sum = rapid.IntRange(0, 3).Draw(t, "sum") == 0
	c.Background = rapid.IntRange(0, 3).Draw(t, "background") == 0
	if c.Sum && c.Spec.ValueThreshold < 8 {
		c.Spec.InMemory = false // the in-memory mode cannot hold an 8-byte value then
	}
	kinds := []string{"add", "add", "add", "add", "get", "get", "merge", "merge", "flush", "flush", "compact", "compact", "compact", "reopen", "newop", "other"}
	n := rapid.IntRange(4, 50).Draw(t, "nops")
	for i := 0; i < n; i++ {
		op := mOp{Kind: rapid.SampledFrom(kinds).Draw(t, "kind"), Key: rapid.SampledFrom([]int{0, 0, 0, 1, 2}).Draw(t, "key")}
		switch op.Kind {
		case "add":
			if c.Sum {
				op.Val = make([]byte, 8)
				binary.BigEndian.PutUint64(op.Val, uint64(rapid.IntRange(0, 1000).Draw(t, "n")))
			} else {
				T := int(c.Spec.ValueThreshold)
				sz := rapid.SampledFrom([]int{1, 1, 2, 3, T - 1, T, T + 1, 40}).Draw(t, "size")
				if sz < 1 {
					sz = 1
				}
				if c.Spec.InMemory && sz > T {
					sz = T
				}
				op.Val = bytes.Repeat([]byte{byte('a' + i%26)}, sz)
			}
		case "compact":
			op.A = rapid.IntRange(0, 6).Draw(t, "level")
			if rapid.Bool().Draw(t, "l0") {
				op.A = 0
			}
			op.B = rapid.IntRange(0, 2).Draw(t, "worker")
		}
		c.Ops = append(c.Ops, op)
	}
	return c
}

func runC31(c c31Case, rec *evid.Rec) (core.Result, error) {
	var res core.Result
	dir := core.Scratch("merge")
	defer os.RemoveAll(dir)
	db, err := c.Spec.Open(dir, nil)
	if err != nil {
		return res, fmt.Errorf("open: %v", err)
	}
	f := badger.MergeFunc(appendFn)
	if c.Sum {
		f = sumFn
	}
	dur := time.Hour
	if c.Background {
		dur = time.Millisecond
	}
	ops := make([]*badger.MergeOperator, len(mergeKeys))
	want := make([][]byte, len(mergeKeys)) // nil = no Add yet
	adds := make([]int, len(mergeKeys))
	for i, k := range mergeKeys {
		ops[i] = db.GetMergeOperator(k, f, dur)
	}
	stopAll := func() {
		for _, o := range ops {
			if o != nil {
				o.Stop()
			}
		}
	}
	defer func() {
		stopAll()
		db.Close()
	}()
	// settle: a write submitted after the asynchronous merge write-back is applied after it
	settle := func() error {
		return db.Update(func(txn *badger.Txn) error { return txn.Set([]byte("zz-settle"), []byte{1}) })
	}
	// the inline size limit: a merged value grows; stay within what one transaction can hold
	limit := int(c.Spec.MemTableSize / 16)
	if c.Spec.InMemory {
		limit = int(c.Spec.ValueThreshold)
	}
	check := func(step int, what string) error {
		for i, o := range ops {
			got, err := o.Get()
			if want[i] == nil {
				if err != badger.ErrKeyNotFound {
					return fmt.Errorf("step %d (%s): Get(%q) before the first Add returns (%x, %v), want ErrKeyNotFound", step, what, mergeKeys[i], got, err)
				}
				continue
			}
			if err != nil {
				return fmt.Errorf("step %d (%s): Get(%q) after %d Adds: %v", step, what, mergeKeys[i], adds[i], err)
			}
			if !bytes.Equal(got, want[i]) {
				return fmt.Errorf("step %d (%s): Get(%q) = %x (len %d), want the fold of the %d added values %x (len %d)", step, what, mergeKeys[i], head(got), len(got), adds[i], head(want[i]), len(want[i]))
			}
		}
		return nil
	}
	merges, maint, afterMergeAdds, reopens := 0, 0, 0, 0
	merged := make([]bool, len(mergeKeys))
	for step, op := range c.Ops {
		i := op.Key % len(mergeKeys)
		switch op.Kind {
		case "add":
			if !c.Sum && len(want[i])+len(op.Val) > limit {
				continue
			}
			if err := ops[i].Add(op.Val); err != nil {
				return res, fmt.Errorf("step %d: Add: %v", step, err)
			}
			if want[i] == nil {
				want[i] = append([]byte{}, op.Val...)
			} else {
				want[i] = f(want[i], op.Val)
			}
			adds[i]++
			if merged[i] {
				afterMergeAdds++
			}
		case "get":
		case "merge":
			if err := ops[i].VerifCompact(); err != nil {
				return res, fmt.Errorf("step %d: merge compaction: %v", step, err)
			}
			if err := settle(); err != nil {
				return res, err
			}
			if adds[i] >= 2 {
				merges++
				merged[i] = true
			}
		case "flush":
			if c.Background {
				// the forced rotation needs a moment without writes in flight: park the operators'
				// goroutines (Stop runs a last merge), let its write-back land, re-create them after
				stopAll()
				if err := settle(); err != nil {
					return res, err
				}
			}
			if err := dbx.RelieveL0(db, 30); err != nil {
				return res, err
			}
			if _, err := dbx.Flush(db); err != nil {
				return res, err
			}
			if c.Background {
				for j, k := range mergeKeys {
					ops[j] = db.GetMergeOperator(k, f, dur)
				}
			}
			maint++
		case "compact":
			lvl := op.A % c.Spec.MaxLevels
			if err, none := db.VerifCompact(op.B%3, badger.VerifPrio{Level: lvl, Score: 2, Adjusted: 2}); err != nil {
				return res, fmt.Errorf("step %d: compaction: %v", step, err)
			} else if !none {
				maint++
			}
		case "newop":
			ops[i].Stop()
			ops[i] = db.GetMergeOperator(mergeKeys[i], f, dur)
		case "reopen":
			if c.Spec.InMemory {
				continue
			}
			stopAll()
			if err := db.Close(); err != nil {
				return res, fmt.Errorf("step %d: Close: %v", step, err)
			}
			db, err = c.Spec.Open(dir, nil)
			if err != nil {
				return res, fmt.Errorf("step %d: re-open: %v", step, err)
			}
			for j, k := range mergeKeys {
				ops[j] = db.GetMergeOperator(k, f, dur)
			}
			reopens++
		case "other": // an unrelated key next to the merge keys
			if err := db.Update(func(txn *badger.Txn) error { return txn.Set([]byte("m\x00\x00"), []byte("x")) }); err != nil {
				return res, err
			}
		}
		if err := check(step, op.Kind); err != nil {
			return res, err
		}
	}
	rec.Add("merge_compactions", merges)
	rec.Add("lsm_maintenance_steps", maint)
	cls := func(cond bool, n string) {
		if cond {
			res.Classes = append(res.Classes, n)
		}
	}
	cls(merges > 0, "merge_compaction_ran")
	cls(afterMergeAdds > 0, "add_after_merge")
	cls(maint > 0, "flush_or_compaction")
	cls(reopens > 0, "reopen")
	cls(c.Background, "background_merge_goroutine")
	cls(c.Sum, "sum_function")
	cls(c.Spec.InMemory, "inmemory")
	cls(c.Spec.EncKeyLen > 0, "encrypted")
	res.NonTrivial = merges > 0 && maint > 0 && afterMergeAdds > 0
	return res, nil
}

func TestC31_MergeOperator(t *testing.T) {
	core.Run(t, "C31", "merge",
		"rapid-generated histories over three merge keys (one a prefix of the others): Add (byte-append, an order-sensitive associative function, or uint64 addition; value sizes around the threshold), Get, the operator's merge compaction (driven by the harness via the production compact(), or by the operator's own goroutine ticking every millisecond), memtable flushes, LSM compactions (level, worker), operator Stop + re-create, Close + re-open, writes to a neighbouring key; normal mode, in-memory, encryption, NumVersionsToKeep 1/2/unbounded. Oracle after every step: Get of every operator equals the fold of all values added so far in Add order; ErrKeyNotFound before the first Add. Non-trivial = a merge compaction wrote back, an Add followed it and a flush/compaction ran.",
		genC31, runC31)
}
