package lsm

import (
	"bytes"
	"fmt"
	"math"
	"os"
	"sort"
	"testing"
	"time"

	badger "github.com/dgraph-io/badger/v4"
	"github.com/dgraph-io/badger/v4/y"
	"pgregory.net/rapid"

	"verifharness/internal/core"
	"verifharness/internal/dbx"
	"verifharness/internal/evid"
	"verifharness/internal/model"
)

// ---- C27: WriteBatch ---------------------------------------------------------------------------------

type wbOp struct {
	Kind  int  `json:"k"` // 0 Set, 1 SetEntry(meta, expiry), 2 Delete, 3 SetEntryAt, 4 DeleteAt
	Key   int  `json:"key"`
	VSize int  `json:"vs"`
	Meta  byte `json:"meta,omitempty"`
	TTL   int  `json:"ttl,omitempty"`
	Ver   int  `json:"ver,omitempty"` // index into the version pool (managed write batch)
}

type c27Case struct {
	Spec     dbx.Spec `json:"spec"`
	Mode     int      `json:"mode"` // 0 NewWriteBatch, 1 NewWriteBatchAt, 2 NewManagedWriteBatch
	Keys     [][]byte `json:"keys"`
	Versions []uint64 `json:"versions"`
	CommitTs uint64   `json:"committs"`
	Ops      []wbOp   `json:"ops"`
	Cut      int      `json:"cut"`      // ops[:Cut] go into a first batch, the rest into a second one
	FlushMid bool     `json:"flushmid"` // flush the memtable between the two batches
	// More batches: Cuts (ascending op indices) split the operations into consecutive batches; after
	// batch i the memtable is flushed if FlushAfter[i], and all tables are aged if AgeAfter[i].
	// FinalCompact: 0 = L0->base (forced), 1 = worker 0 with a low adjusted score (L0->L0 fallback).
	Cuts         []int  `json:"cuts,omitempty"`
	FlushAfter   []bool `json:"flushafter,omitempty"`
	AgeAfter     []bool `json:"ageafter,omitempty"`
	FinalCompact int    `json:"finalcompact,omitempty"`
}

func genC27(t *rapid.T) c27Case {
	var c c27Case
	c.Spec = dbx.Gen(t, dbx.GenCfg{AllowInMemory: true, KeepVersions: []int{0}})
	c.Spec.MemTableSize = rapid.SampledFrom([]int64{1 << 13, 1 << 14, 1 << 15}).Draw(t, "memtable")
	if c.Spec.ValueThreshold > c.Spec.MemTableSize*15/100 {
		c.Spec.ValueThreshold = 32
	}
	if c.Spec.InMemory {
		c.Spec.ValueThreshold = 1024 // in memory mode the threshold is also the value size limit
	}
	c.Mode = rapid.IntRange(0, 2).Draw(t, "mode")
	c.Spec.Managed = c.Mode != 0
	c.Spec.NumVersionsToKeep = 0 // keep every version: the check is about what the batch wrote
	c.Keys = genKeys(t, 2, 8)
	vs := map[uint64]bool{}
	for len(c.Versions) < 3 {
		v := uint64(rapid.IntRange(1, 12).Draw(t, "version"))
		if !vs[v] {
			vs[v] = true
			c.Versions = append(c.Versions, v)
		}
	}
	c.CommitTs = uint64(rapid.IntRange(1, 20).Draw(t, "committs"))
	n := rapid.OneOf(rapid.IntRange(1, 20), rapid.IntRange(20, 120), rapid.IntRange(120, 400)).Draw(t, "nops")
	for i := 0; i < n; i++ {
		op := wbOp{Key: rapid.IntRange(0, len(c.Keys)-1).Draw(t, "key")}
		switch c.Mode {
		case 2:
			op.Kind = rapid.SampledFrom([]int{3, 3, 3, 4}).Draw(t, "kind")
			op.Ver = rapid.IntRange(0, 2).Draw(t, "ver")
		default:
			op.Kind = rapid.SampledFrom([]int{0, 0, 1, 1, 2}).Draw(t, "kind")
		}
		op.VSize = rapid.SampledFrom([]int{0, 1, 10, 31, 32, 33, 100, 300}).Draw(t, "vsize")
		op.Meta = rapid.SampledFrom([]byte{0, 1, 0xff}).Draw(t, "meta")
		if rapid.IntRange(0, 5).Draw(t, "hasttl") == 0 {
			op.TTL = rapid.SampledFrom([]int{-1, 5, 100}).Draw(t, "ttl")
		}
		c.Ops = append(c.Ops, op)
	}
	c.Cut = rapid.IntRange(0, n).Draw(t, "cut")
	c.FlushMid = rapid.Bool().Draw(t, "flushmid")
	if rapid.IntRange(0, 2).Draw(t, "many") == 0 {
		nb := rapid.IntRange(3, 7).Draw(t, "nbatches")
		for i := 0; i < nb-1; i++ {
			c.Cuts = append(c.Cuts, rapid.IntRange(0, n).Draw(t, "cutpoint"))
		}
		sort.Ints(c.Cuts)
		for i := 0; i < nb; i++ {
			c.FlushAfter = append(c.FlushAfter, rapid.IntRange(0, 4).Draw(t, "flushafter") > 0)
			c.AgeAfter = append(c.AgeAfter, rapid.IntRange(0, 2).Draw(t, "ageafter") == 0)
		}
		c.FinalCompact = rapid.IntRange(0, 1).Draw(t, "finalcompact")
	}
	return c
}

func runC27(c c27Case, rec *evid.Rec) (core.Result, error) {
	var res core.Result
	dir := core.Scratch("c27")
	defer os.RemoveAll(dir)
	y.VerifSetClock(clockBase)
	defer y.VerifSetClock(0)
	db, err := c.Spec.Open(dir, nil)
	if err != nil {
		return res, fmt.Errorf("open: %v", err)
	}
	defer func() { db.Close() }()
	m := model.New(clockBase)

	newBatch := func() *badger.WriteBatch {
		switch c.Mode {
		case 0:
			return db.NewWriteBatch()
		case 1:
			return db.NewWriteBatchAt(c.CommitTs)
		}
		return db.NewManagedWriteBatch()
	}
	type wrote struct {
		key []byte
		v   model.Ver
	}
	var order []wrote // model effects in call order
	seq := 0
	apply := func(wb *badger.WriteBatch, op wbOp) error {
		key := append([]byte{}, c.Keys[op.Key%len(c.Keys)]...)
		seq++
		v := val(seq, op.VSize)
		ver := model.Ver{Val: v}
		var e *badger.Entry
		switch op.Kind {
		case 0:
			order = append(order, wrote{key, ver})
			return wb.Set(key, v)
		case 1, 3:
			e = badger.NewEntry(key, v).WithMeta(op.Meta)
			ver.UserMeta = op.Meta
			if op.TTL != 0 {
				e.ExpiresAt = uint64(int64(clockBase) + int64(op.TTL))
				ver.ExpiresAt = e.ExpiresAt
			}
			if op.Kind == 3 {
				ver.Ts = c.Versions[op.Ver%len(c.Versions)]
				order = append(order, wrote{key, ver})
				return wb.SetEntryAt(e, ver.Ts)
			}
			order = append(order, wrote{key, ver})
			return wb.SetEntry(e)
		case 2:
			order = append(order, wrote{key, model.Ver{Deleted: true}})
			return wb.Delete(key)
		default:
			ts := c.Versions[op.Ver%len(c.Versions)]
			order = append(order, wrote{key, model.Ver{Deleted: true, Ts: ts}})
			return wb.DeleteAt(key, ts)
		}
	}
	before := db.MaxVersion()
	cut := c.Cut
	if cut > len(c.Ops) {
		cut = len(c.Ops)
	}
	parts := [][]wbOp{c.Ops[:cut], c.Ops[cut:]}
	flushAfter, ageAfter := []bool{c.FlushMid, false}, []bool{false, false}
	if len(c.Cuts) > 0 {
		parts, flushAfter, ageAfter = nil, c.FlushAfter, c.AgeAfter
		prev := 0
		for _, cp := range append(append([]int{}, c.Cuts...), len(c.Ops)) {
			if cp > len(c.Ops) {
				cp = len(c.Ops)
			}
			if cp < prev {
				cp = prev
			}
			parts = append(parts, c.Ops[prev:cp])
			prev = cp
		}
	}
	flushedTables := 0
	for bi, part := range parts {
		wb := newBatch()
		for i, op := range part {
			if err := apply(wb, op); err != nil {
				wb.Cancel()
				return res, fmt.Errorf("batch %d op %d (%+v): %v", bi, i, op, err)
			}
		}
		if err := wb.Flush(); err != nil {
			return res, fmt.Errorf("batch %d Flush: %v", bi, err)
		}
		if bi < len(flushAfter) && flushAfter[bi] && bi < len(parts)-1 {
			if ok, err := dbx.Flush(db); err != nil {
				return res, err
			} else if ok {
				flushedTables++
			}
		}
		if bi < len(ageAfter) && ageAfter[bi] {
			db.VerifBackdateTables(11 * time.Second)
		}
	}
	// model: later calls win. Normal mode: call i gets a pseudo timestamp i+1 (only the order matters).
	for i, w := range order {
		v := w.v
		switch c.Mode {
		case 0:
			v.Ts = uint64(i + 1)
		case 1:
			v.Ts = c.CommitTs
		}
		m.Write(w.key, v)
	}
	splits := 0
	if c.Mode == 0 {
		splits = int(db.MaxVersion()-before) - 1
	}
	dupKV := false
	seenKV := map[string]bool{}
	for _, w := range order {
		k := fmt.Sprintf("%x@%d", w.key, w.v.Ts)
		if c.Mode != 0 && seenKV[k] {
			dupKV = true
		}
		seenKV[k] = true
	}

	check := func(stage string) error {
		readAt := []uint64{math.MaxUint64}
		if c.Mode == 2 {
			readAt = append(readAt, c.Versions...)
		}
		if c.Mode == 1 {
			readAt = append(readAt, c.CommitTs)
		}
		for _, ts := range readAt {
			var txn *badger.Txn
			mts := ts
			if c.Mode == 0 {
				txn = db.NewTransaction(false)
				mts = math.MaxUint64
			} else {
				txn = db.NewTransactionAt(ts, false)
			}
			for _, key := range c.Keys {
				want := m.Visible(key, mts)
				item, err := txn.Get(key)
				if want == nil {
					if err != badger.ErrKeyNotFound {
						txn.Discard()
						return fmt.Errorf("%s: Get(%x)@%d = (%v, %v), want ErrKeyNotFound (last call for this key/version was a delete or expired entry)", stage, key, ts, item, err)
					}
					continue
				}
				if err != nil {
					txn.Discard()
					return fmt.Errorf("%s: Get(%x)@%d error %v, want the value of the last call (len %d)", stage, key, ts, err, len(want.Val))
				}
				got, _ := item.ValueCopy(nil)
				if !bytes.Equal(got, want.Val) || item.UserMeta() != want.UserMeta || item.ExpiresAt() != want.ExpiresAt {
					txn.Discard()
					return fmt.Errorf("%s: Get(%x)@%d returned value %x.. (len %d, meta %d) version %d; the last call for that key%s wrote %x.. (len %d, meta %d)",
						stage, key, ts, head(got), len(got), item.UserMeta(), item.Version(), map[bool]string{true: " and version", false: ""}[c.Mode == 2], head(want.Val), len(want.Val), want.UserMeta)
				}
				if c.Mode != 0 && item.Version() != want.Ts {
					txn.Discard()
					return fmt.Errorf("%s: Get(%x)@%d has version %d, want %d", stage, key, ts, item.Version(), want.Ts)
				}
			}
			txn.Discard()
		}
		return nil
	}
	if err := check("after Flush"); err != nil {
		return res, err
	}
	if _, err := dbx.Flush(db); err != nil {
		return res, err
	}
	l0before := len(db.VerifL0TableIDs())
	if c.FinalCompact == 1 {
		if err, _ := db.VerifCompact(0, badger.VerifPrio{Level: 0, Score: 1.5, Adjusted: 0.5}); err != nil {
			return res, fmt.Errorf("compaction: %v", err)
		}
		if n := len(db.VerifL0TableIDs()); n >= 1 && n < l0before {
			res.Classes = append(res.Classes, "l0_to_l0")
		}
	} else if err, _ := db.VerifCompact(1, badger.VerifPrio{Level: 0, Score: 2, Adjusted: 2}); err != nil {
		return res, fmt.Errorf("compaction: %v", err)
	}
	if err := check("after memtable flush + L0 compaction"); err != nil {
		return res, err
	}
	// Known finding l0-order-lost-on-reopen: Open orders level 0 by file id. The output of an L0->L0
	// compaction gets a higher id than younger tables that were left out of it, so after a re-open
	// the merged (older) data takes precedence for an equal (key, version). Exactly the re-open
	// comparison after an L0->L0 final compaction is excluded (counted).
	skipReopen := false
	if c.FinalCompact == 1 && len(c.Cuts) > 0 && !c27Strict {
		skipReopen = true
		res.Excluded++
	}
	if !c.Spec.InMemory && !skipReopen {
		if err := db.Close(); err != nil {
			return res, fmt.Errorf("close: %v", err)
		}
		db, err = c.Spec.Open(dir, nil)
		if err != nil {
			return res, fmt.Errorf("re-open: %v", err)
		}
		if err := check("after close and re-open"); err != nil {
			return res, err
		}
	}
	est := 0
	for _, op := range c.Ops {
		est += op.VSize + 20
	}
	if c.Mode != 0 && (int64(est) > db.MaxBatchSize() || int64(len(c.Ops)) > db.MaxBatchCount()) {
		splits = 1
	}
	res.NonTrivial = splits >= 1 && (c.Mode == 0 || dupKV)
	if splits >= 1 {
		res.Classes = append(res.Classes, "batch_split")
	}
	if dupKV {
		res.Classes = append(res.Classes, "repeated_key_version")
	}
	res.Classes = append(res.Classes, []string{"NewWriteBatch", "NewWriteBatchAt", "NewManagedWriteBatch"}[c.Mode])
	if (c.FlushMid && cut > 0 && cut < len(c.Ops)) || flushedTables > 0 {
		res.Classes = append(res.Classes, "batches_across_tables")
	}
	return res, nil
}

var c27Strict bool

// TestKF_C27Strict replays a saved batch program with the known-finding exclusion switched off.
func TestKF_C27Strict(t *testing.T) {
	if !core.Replaying() {
		t.Skip("witness runner: replay only")
	}
	c27Strict = true
	defer func() { c27Strict = false }()
	core.Run(t, "KF", "witness", "witness replay", genC27, runC27)
}

func TestC27_WriteBatch(t *testing.T) {
	core.Run(t, "C27", "writebatch",
		"rapid-generated batches of 1-400 operations over 2-8 keys through NewWriteBatch (Set/SetEntry/Delete), NewWriteBatchAt(ts) and NewManagedWriteBatch (SetEntryAt/DeleteAt with versions from a pool of 3, so equal (key, version) pairs recur), memtable 8-32 KiB and value sizes 0-300 so that the batch is split into several internal transactions, optionally as 2-7 consecutive batches with memtable flushes and table ageing in between (duplicates of the same (key, version) spread over several L0 tables, some of them young), followed by an L0->base or a worker-0 L0->L0 compaction. After Flush()==nil, and again after a memtable flush plus L0 compaction, every key is read at the newest timestamp and at every version of the pool: the last call for that key (and version) must win. Non-trivial = the batch was split at least once and (managed modes) a (key, version) pair was written more than once.",
		genC27, runC27)
}
