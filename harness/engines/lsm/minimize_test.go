package lsm

import (
	"encoding/json"
	"fmt"
	"os"
	"strings"
	"testing"

	"verifharness/internal/core"
)

// TestMinimize is a development aid (not a check): delta-debugs the op list of a saved program.
//
//	VERIF_MIN_IN=in.json VERIF_MIN_OUT=out.json VERIF_MIN_MATCH="substring of the failure" [VERIF_MIN_STRICT=1]
func TestMinimize(t *testing.T) {
	inPath := os.Getenv("VERIF_MIN_IN")
	if inPath == "" {
		t.Skip("development aid")
	}
	raw, err := os.ReadFile(inPath)
	if err != nil {
		t.Fatal(err)
	}
	var f core.File
	if err := json.Unmarshal(raw, &f); err != nil {
		t.Fatal(err)
	}
	var p Program
	if err := json.Unmarshal(f.Program, &p); err != nil {
		t.Fatal(err)
	}
	match := os.Getenv("VERIF_MIN_MATCH")
	strict := os.Getenv("VERIF_MIN_STRICT") != ""
	fails := func(ops []Op) (bool, string) {
		q := p
		q.Ops = ops
		chain := &backupChain{}
		defer chain.close()
		_, err := Run(q, func(in *Interp) {
			extSetup(map[string]func(*Interp, Op) error{"backup": backupOpFor(chain), "stream": streamOp, "dropprefix": dropPrefixOp, "dropall": dropAllOp})(in)
			in.Strict = strict
			if os.Getenv("VERIF_MIN_STRICT") == "stale" {
				in.Strict, in.StrictStale = false, true
			}
		})
		if err == nil {
			return false, ""
		}
		return strings.Contains(err.Error(), match), err.Error()
	}
	ok, msg := fails(p.Ops)
	if !ok {
		t.Fatalf("the input does not fail with %q (got %q)", match, msg)
	}
	ops := p.Ops
	for chunk := len(ops) / 2; chunk >= 1; {
		removed := false
		for i := 0; i+chunk <= len(ops); {
			cand := append(append([]Op{}, ops[:i]...), ops[i+chunk:]...)
			if ok, m := fails(cand); ok {
				ops, msg, removed = cand, m, true
			} else {
				i += chunk
			}
		}
		if !removed || chunk > len(ops) {
			chunk /= 2
		}
		if chunk > len(ops) {
			chunk = len(ops)
		}
	}
	p.Ops = ops
	b, _ := json.Marshal(p)
	f.Program = b
	f.Message = msg
	if tn := os.Getenv("VERIF_MIN_TEST"); tn != "" {
		f.Test = tn
	}
	out, _ := json.MarshalIndent(f, "", " ")
	if err := os.WriteFile(os.Getenv("VERIF_MIN_OUT"), out, 0o644); err != nil {
		t.Fatal(err)
	}
	fmt.Printf("minimized to %d ops: %s\n", len(ops), msg)
}
