// Package lsm holds the DB-level model-based checks: rapid generates a Program (options, key
// pool, operation list), interp.go executes it against a real DB whose flush / compaction / GC
// schedule is owned by the program, and compares every read with the reference model.
package lsm

import (
	"bytes"
	"crypto/sha256"
	"errors"
	"fmt"
	"math"
	"os"
	"path/filepath"
	"sort"
	"time"

	badger "github.com/dgraph-io/badger/v4"
	"github.com/dgraph-io/badger/v4/table"
	"github.com/dgraph-io/badger/v4/y"

	"verifharness/internal/core"
	"verifharness/internal/dbx"
	"verifharness/internal/model"
)

// IterSpec describes one iterator use.
type IterSpec struct {
	Reverse    bool `json:"rev,omitempty"`
	All        bool `json:"all,omitempty"`
	KeyIter    bool `json:"keyiter,omitempty"` // NewKeyIterator on Keys[Prefix]
	NoPrefetch bool `json:"nopf,omitempty"`
	PFSize     int  `json:"pfsize,omitempty"`
	Prefix     int  `json:"prefix"` // -1: none; else index of the key whose first PLen bytes form the prefix
	PLen       int  `json:"plen,omitempty"`
	Since      int  `json:"since,omitempty"` // 0 none; else index (mod) into the known commit timestamps
	Seek       int  `json:"seek"`            // -1: Rewind; else key index (adjusted to carry the prefix)
	Hold       int  `json:"hold,omitempty"`  // >0: consume Hold-1 items, then keep the iterator open
}

// Op is one program step. Operands are indices interpreted modulo the live state, so that any
// sub-sequence of a program is still a valid program (shrinking, replay).
type Op struct {
	Kind  string    `json:"k"`
	T     int       `json:"t,omitempty"`
	Key   int       `json:"key,omitempty"`
	VSize int       `json:"vs,omitempty"`
	Meta  byte      `json:"meta,omitempty"`
	TTL   int       `json:"ttl,omitempty"`
	Disc  bool      `json:"disc,omitempty"`
	RW    bool      `json:"rw,omitempty"`
	Ts    uint64    `json:"ts,omitempty"`
	A     int       `json:"a,omitempty"`
	B     int       `json:"b,omitempty"`
	F     float64   `json:"f,omitempty"`
	It    *IterSpec `json:"it,omitempty"`
}

// Program is the unit rapid generates, shrinks and that replay files store.
type Program struct {
	Spec dbx.Spec `json:"spec"`
	Keys [][]byte `json:"keys"`
	// Fan > 1 widens the key space: key index i >= len(Keys) means Keys[i mod n] extended by one
	// byte derived from i div n (so multi-table levels are reachable with a small shrinkable pool).
	Fan int  `json:"fan,omitempty"`
	Ops []Op `json:"ops"`
}

// Stats is what a run reports for the evidence classes.
type Stats struct {
	Flushes, Compactions, L0toL0, Reopens, GCRewrites, GCRuns     int
	Commits, Conflicts, Deletes, Overwrites, Expiring             int
	ReadsAcrossMaint, IterAll, IterRev, IterPrefix, IterSince     int
	HeldIter, HeldItems, PendingIter, PendingShadow               int
	CompactAfterDelete, MultiLevel, VlogValues, ClockAdvances     int
	ExpiredObserved, TablesMax, LevelsMax, ConcurrentTxnReads     int
	MultiVersionKeys, CompactedMultiVersion, DiscardMoves         int
	ManagedLowerWrite, ReadOnlyOpens, CheckAlls, ThresholdCrossed int
	MultiTableLevel, CommitsAfterReopen, CompactAfterExpiry       int
	HitKnown, GCFailed, GCPauseOps                                int
	Excluded                                                      int
}

const clockBase = 1_000_000

// errKnown ends a program early because it ran into a listed known finding.
var errKnown = errors.New("known finding reached")

func staleKey(key []byte, ver uint64) string { return fmt.Sprintf("%x@%d", key, ver) }

// knownStale reports whether serving version ver of key is the listed finding
// gc-old-version-resurfaces (never in Strict mode).
func (in *Interp) knownStale(key []byte, ver, readTs uint64) bool {
	if in.Strict || in.StrictStale || (!in.stale[staleKey(key, ver)] && !in.lowStale[staleKey(key, ver)]) {
		return false
	}
	// The finding's mechanism: every version between the re-inserted old one and the reader's
	// timestamp has been compacted away, so the old one is the newest the DB stores at or below
	// that timestamp. If the DB still holds a newer visible version and serves the old one anyway,
	// that is a different defect and is reported.
	txn, _ := in.newReader()
	defer txn.Discard()
	o := badger.DefaultIteratorOptions
	o.PrefetchValues = false
	it := txn.NewKeyIterator(key, o)
	defer it.Close()
	for it.Rewind(); it.Valid(); it.Next() {
		if v := it.Item().Version(); v <= readTs {
			return v == ver
		}
	}
	return false
}

type heldIter struct {
	it      *badger.Iterator
	spec    IterSpec
	want    []model.Item
	pos     int
	lenient bool
	desc    string
}

type heldItem struct {
	item *badger.Item
	want model.Ver
	key  []byte
	gcAt int // number of successful GC rewrites when the item was obtained
}

type txnState struct {
	txn      *badger.Txn
	rw       bool
	readTs   uint64
	pending  map[string]model.Ver
	reads    map[string]bool
	iters    []*heldIter
	items    []*heldItem
	begunAt  int // maintenance epoch at begin
	commitAt int // commit counter at begin
}

type commitRec struct {
	ts   uint64
	keys map[string]bool
}

// Interp executes programs.
type Interp struct {
	P       Program
	dir     string
	db      *badger.DB
	m       *model.Model
	txns    [4]*txnState
	commits []commitRec
	// commits[conflictFrom:] are the ones the running DB instance knows for conflict detection
	// (the conflict history is in memory only and does not survive a re-open)
	conflictFrom int
	seq          int
	epoch        int    // bumped by every maintenance op
	wmax         uint64 // largest discard watermark any compaction may have used
	discard      uint64 // managed mode discardTs
	St           Stats
	step         int
	thr0         int64
	// Strict disables every known-finding exclusion (used by the known-finding witness tests).
	Strict      bool
	StrictStale bool // development aid: only the gc-old-version-resurfaces exclusion is off
	// stale holds (key, version) pairs that were present in the tree below a newer version of
	// the same key when a value log GC rewrite succeeded: the rewrite may have re-inserted them
	// above the newer versions (known finding gc-old-version-resurfaces).
	stale map[string]bool
	// hooks for derived checks
	OnReopen     func(in *Interp) error
	AfterOp      func(in *Interp) error
	skip         int      // ops still to be skipped by the main loop (they ran inside a GC pause)
	pendingStale []string // see doGC
	// lowStale: (key, version) pairs written in managed mode below a newer delete / expiring /
	// discard-earlier entry of the same key (known finding managed-lower-write-above-purged-marker)
	lowStale map[string]bool
	// TsRestarts counts re-opens after which the DB restarted its timestamps below dropped dead versions.
	TsRestarts int
	// Ext holds the op kinds of derived checks (stream, backup, drop, ...), Cnt their counters.
	Ext map[string]func(in *Interp, op Op) error
	Cnt map[string]int
	// OnClose releases resources of derived checks.
	OnClose []func()
	Lenient bool // AllVersions results compared as mustRetain ⊆ seen ⊆ written (always true after compactions)
}

func val(seq, size int) []byte {
	v := make([]byte, size)
	for i := range v {
		v[i] = byte(seq*31 + i*7 + 11)
	}
	if size >= 4 {
		v[0], v[1], v[2], v[3] = byte(seq>>8), byte(seq), 0xA5, 0x5A
	}
	return v
}

// reservedKeyBase: key indices from here on name a reserved key family that sorts after every pool
// key (used by macros that need a key range no other data overlaps).
const reservedKeyBase = 1 << 20

func (in *Interp) key(i int) []byte {
	if i >= reservedKeyBase {
		return []byte{0xff, 0xff, 0xff, 0xff, 0xff, 0xff, byte(i - reservedKeyBase)}
	}
	n := len(in.P.Keys)
	fan := in.P.Fan
	if fan < 1 {
		fan = 1
	}
	i = ((i % (n * fan)) + n*fan) % (n * fan)
	base := in.P.Keys[i%n]
	if j := i / n; j > 0 {
		return append(append([]byte{}, base...), fanBytes[j%len(fanBytes)])
	}
	return base
}

var fanBytes = []byte{0, 'c', 'd', 'e', 'f', 'g', 'h', 'i', 'j', 'k', 'l', 'm', 'n', 'o', 'p', 0xFD}

// allKeys returns the pool keys plus every key the model knows, sorted.
func (in *Interp) allKeys() [][]byte {
	seen := map[string]bool{}
	var out [][]byte
	for _, k := range in.P.Keys {
		if !seen[string(k)] {
			seen[string(k)] = true
			out = append(out, k)
		}
	}
	for _, k := range in.m.SortedKeys() {
		if !seen[string(k)] {
			seen[string(k)] = true
			out = append(out, k)
		}
	}
	sort.Slice(out, func(i, j int) bool { return bytes.Compare(out[i], out[j]) < 0 })
	return out
}

// Dir returns the scratch directory of the run.
func (in *Interp) Dir() string { return in.dir }

// Errf formats an oracle failure with the current step.
func (in *Interp) Errf(format string, a ...any) error { return in.errf(format, a...) }

func (in *Interp) errf(format string, a ...any) error {
	return fmt.Errorf("step %d (%s): %s", in.step, in.opDesc(), fmt.Sprintf(format, a...))
}

func (in *Interp) opDesc() string {
	if in.step < 0 || in.step >= len(in.P.Ops) {
		return "final"
	}
	o := in.P.Ops[in.step]
	return fmt.Sprintf("%s t=%d key=%x", o.Kind, o.T, in.key(o.Key))
}

// Open creates the scratch directory and opens the DB.
func (in *Interp) Open() error {
	in.dir = core.Scratch("lsm")
	in.m = model.New(clockBase)
	y.VerifSetClock(in.m.Clock)
	db, err := in.P.Spec.Open(in.dir, nil)
	if err != nil {
		return fmt.Errorf("open: %v", err)
	}
	in.db = db
	in.thr0 = db.VerifValueThreshold()
	return nil
}

// Close releases everything (best effort).
func (in *Interp) Close() {
	for _, f := range in.OnClose {
		f()
	}
	in.dropAllTxns()
	if in.db != nil {
		in.db.Close()
		in.db = nil
	}
	y.VerifSetClock(0)
	os.RemoveAll(in.dir)
}

func (in *Interp) dropTxn(i int) {
	ts := in.txns[i]
	if ts == nil {
		return
	}
	for _, h := range ts.iters {
		h.it.Close()
	}
	ts.txn.Discard()
	in.txns[i] = nil
}

func (in *Interp) dropAllTxns() {
	for i := range in.txns {
		in.dropTxn(i)
	}
}

// newestTs is the timestamp a fresh reader uses.
func (in *Interp) newReader() (*badger.Txn, uint64) {
	if in.P.Spec.Managed {
		return in.db.NewTransactionAt(math.MaxUint64, false), math.MaxUint64
	}
	t := in.db.NewTransaction(false)
	return t, t.ReadTs()
}

// ---- reads ---------------------------------------------------------------------------------------

func (in *Interp) checkItem(desc string, item *badger.Item, want model.Item, valueToo bool) error {
	if !bytes.Equal(item.Key(), want.Key) {
		return in.errf("%s: key %x, want %x", desc, item.Key(), want.Key)
	}
	if item.Version() != want.Version {
		return in.errf("%s: key %x version %d, want %d", desc, want.Key, item.Version(), want.Version)
	}
	if item.IsDeletedOrExpired() != want.Dead {
		return in.errf("%s: key %x@%d IsDeletedOrExpired=%v, want %v", desc, want.Key, want.Version, item.IsDeletedOrExpired(), want.Dead)
	}
	if item.UserMeta() != want.UserMeta || item.ExpiresAt() != want.ExpiresAt {
		return in.errf("%s: key %x@%d usermeta/expiry = %d/%d, want %d/%d", desc, want.Key, want.Version, item.UserMeta(), item.ExpiresAt(), want.UserMeta, want.ExpiresAt)
	}
	if item.DiscardEarlierVersions() != want.Discard {
		return in.errf("%s: key %x@%d DiscardEarlierVersions=%v, want %v", desc, want.Key, want.Version, item.DiscardEarlierVersions(), want.Discard)
	}
	if valueToo && !want.Dead {
		got, err := item.ValueCopy(nil)
		if err != nil {
			return in.errf("%s: key %x@%d ValueCopy error %v", desc, want.Key, want.Version, err)
		}
		if !bytes.Equal(got, want.Val) {
			return in.errf("%s: key %x@%d value (len %d) %x..., want (len %d) %x...", desc, want.Key, want.Version, len(got), head(got), len(want.Val), head(want.Val))
		}
		var viaFn []byte
		if err := item.Value(func(v []byte) error { viaFn = append([]byte{}, v...); return nil }); err != nil {
			return in.errf("%s: key %x@%d Value error %v", desc, want.Key, want.Version, err)
		}
		if !bytes.Equal(viaFn, want.Val) {
			return in.errf("%s: key %x@%d Value(fn) (len %d) differs from written (len %d)", desc, want.Key, want.Version, len(viaFn), len(want.Val))
		}
	}
	return nil
}

func head(b []byte) []byte {
	if len(b) > 8 {
		return b[:8]
	}
	return b
}

// expectGet computes what Get(key) must return in txn ts.
func (in *Interp) expectGet(ts *txnState, key []byte) (*model.Item, bool) {
	if ts.rw {
		if p, ok := ts.pending[string(key)]; ok {
			if in.m.Dead(p) {
				return nil, true
			}
			return &model.Item{Key: key, Version: ts.readTs, Val: p.Val, UserMeta: p.UserMeta, ExpiresAt: p.ExpiresAt, Discard: p.Discard, Pending: true}, true
		}
	}
	v := in.m.Visible(key, ts.readTs)
	if v == nil {
		if nv := in.m.Newest(key, ts.readTs); nv != nil && !nv.Deleted {
			in.St.ExpiredObserved++
		}
		return nil, false
	}
	return &model.Item{Key: key, Version: v.Ts, Val: v.Val, UserMeta: v.UserMeta, ExpiresAt: v.ExpiresAt, Discard: v.Discard}, false
}

// keyDump describes the model's and the DB's version lists of one key (for failure messages).
func (in *Interp) keyDump(key []byte) string {
	var b bytes.Buffer
	b.WriteString(" | model:")
	for _, v := range in.m.Keys[string(key)] {
		fmt.Fprintf(&b, " @%d", v.Ts)
		if v.Deleted {
			b.WriteString("(del)")
		}
		if v.ExpiresAt != 0 {
			fmt.Fprintf(&b, "(exp %+d)", int64(v.ExpiresAt)-int64(in.m.Clock))
		}
		if v.Discard {
			b.WriteString("(discard)")
		}
	}
	b.WriteString(" | db:")
	func() {
		defer func() { _ = recover() }()
		txn, _ := in.newReader()
		defer txn.Discard()
		o := badger.DefaultIteratorOptions
		o.PrefetchValues = false
		it := txn.NewKeyIterator(key, o)
		defer it.Close()
		for it.Rewind(); it.Valid(); it.Next() {
			i := it.Item()
			fmt.Fprintf(&b, " @%d", i.Version())
			if i.IsDeletedOrExpired() {
				b.WriteString("(dead)")
			}
		}
		fmt.Fprintf(&b, " | clock %d discard<=%d tables:", in.m.Clock, in.wmax)
		for _, t := range in.db.Tables() {
			fmt.Fprintf(&b, " L%d#%d[%x..%x]", t.Level, t.ID, y.ParseKey(t.Left), y.ParseKey(t.Right))
		}
	}()
	return b.String()
}

func (in *Interp) doGet(ts *txnState, key []byte, hold bool) error {
	want, fromPending := in.expectGet(ts, key)
	item, err := ts.txn.Get(key)
	if ts.rw && !fromPending {
		ts.reads[string(key)] = true
	}
	if err == nil && (want == nil || want.Version != item.Version()) && in.knownStale(key, item.Version(), ts.readTs) {
		return errKnown
	}
	if want == nil {
		if err != badger.ErrKeyNotFound {
			if err == nil {
				return in.errf("Get(%x)@%d returned version %d, want ErrKeyNotFound%s", key, ts.readTs, item.Version(), in.keyDump(key))
			}
			return in.errf("Get(%x)@%d error %v, want ErrKeyNotFound%s", key, ts.readTs, err, in.keyDump(key))
		}
		return nil
	}
	if err != nil {
		return in.errf("Get(%x)@%d error %v, want version %d%s", key, ts.readTs, err, want.Version, in.keyDump(key))
	}
	if e := in.checkItem(fmt.Sprintf("Get@%d", ts.readTs), item, *want, true); e != nil {
		return e
	}
	if len(in.commits) > ts.commitAt || in.epoch > ts.begunAt {
		in.St.ReadsAcrossMaint++
	}
	if hold && !fromPending {
		ts.items = append(ts.items, &heldItem{item: item, key: key, want: model.Ver{Ts: want.Version, Val: want.Val}, gcAt: in.St.GCRewrites})
		in.St.HeldItems++
	}
	return nil
}

func (in *Interp) iterOptions(ts *txnState, s IterSpec) (badger.IteratorOptions, model.IterOpts, []byte, []byte) {
	o := badger.DefaultIteratorOptions
	o.Reverse = s.Reverse
	o.AllVersions = s.All
	o.PrefetchValues = !s.NoPrefetch
	if s.PFSize > 0 {
		o.PrefetchSize = s.PFSize
	}
	mo := model.IterOpts{Reverse: s.Reverse, AllVersions: s.All}
	var prefix []byte
	if s.Prefix >= 0 {
		k := in.key(s.Prefix)
		pl := s.PLen
		if pl > len(k) || s.KeyIter {
			pl = len(k)
		}
		prefix = append([]byte{}, k[:pl]...)
	}
	var keyIter []byte
	if s.KeyIter {
		if prefix == nil {
			prefix = in.key(0)
		}
		keyIter = prefix
		mo.KeyIter = keyIter
	} else if len(prefix) > 0 {
		o.Prefix = prefix
		mo.Prefix = prefix
	}
	if s.Since > 0 && len(in.commits) > 0 {
		since := in.commits[s.Since%len(in.commits)].ts
		if since > 0 {
			o.SinceTs = since
			mo.SinceTs = since
		}
	}
	return o, mo, prefix, keyIter
}

// seekKey returns the Seek argument: a pool key that carries the iterator prefix (seeks outside
// the prefix are undocumented and layout dependent), or the documented reverse idiom prefix+0xFF.
func (in *Interp) seekKey(s IterSpec, prefix []byte) []byte {
	if s.Seek < 0 {
		return nil
	}
	if len(prefix) == 0 {
		return in.key(s.Seek)
	}
	n := len(in.P.Keys) * max(1, in.P.Fan)
	for d := 0; d < n; d++ {
		k := in.key(s.Seek + d)
		if bytes.HasPrefix(k, prefix) {
			if s.Reverse && s.Seek%3 == 0 {
				return append(append([]byte{}, prefix...), 0xFF)
			}
			return k
		}
	}
	return prefix
}

func (in *Interp) compareNext(ts *txnState, h *heldIter, limit int) error {
	it := h.it
	n := 0
	for ; it.Valid(); it.Next() {
		if limit >= 0 && n >= limit {
			return nil
		}
		item := it.Item()
		if ts.rw {
			ts.reads[string(item.Key())] = true
		}
		if h.lenient {
			// mustRetain ⊆ seen ⊆ written, in order: advance in want until the item is found
			found := false
			for h.pos < len(h.want) {
				w := h.want[h.pos]
				h.pos++
				if bytes.Equal(w.Key, item.Key()) && w.Version == item.Version() {
					// Known finding gc-stale-garbage-version: after a value log GC rewrite, a version
					// beyond the retention promise can be served from a stale lower-level copy whose
					// value log file is gone (empty value). Exactly that comparison is excluded.
					valueToo := true
					if !in.Strict && in.St.GCRewrites > 0 && !w.Dead && !in.mustRetain(w) {
						valueToo = false
						in.St.Excluded++
					}
					if err := in.checkItem(h.desc, item, w, valueToo); err != nil {
						return err
					}
					found = true
					break
				}
				if in.mustRetain(w) {
					return in.errf("%s: version %x@%d must have been retained (watermark<=%d, NumVersionsToKeep=%d) but the iterator skipped it (now at %x@%d)",
						h.desc, w.Key, w.Version, in.wmax, in.P.Spec.NumVersionsToKeep, item.Key(), item.Version())
				}
			}
			if !found {
				return in.errf("%s: yielded %x@%d which is not among the written versions in iterator order (expected sequence %s)", h.desc, item.Key(), item.Version(), descItems(h.want))
			}
		} else {
			if (h.pos >= len(h.want) || !bytes.Equal(h.want[h.pos].Key, item.Key()) || h.want[h.pos].Version != item.Version()) && in.knownStale(item.Key(), item.Version(), ts.readTs) {
				return errKnown
			}
			if h.pos >= len(h.want) {
				return in.errf("%s: extra item %x@%d after the %d expected (%s)", h.desc, item.Key(), item.Version(), len(h.want), descItems(h.want))
			}
			if err := in.checkItem(fmt.Sprintf("%s item %d", h.desc, h.pos), item, h.want[h.pos], true); err != nil {
				return err
			}
			h.pos++
		}
		n++
	}
	// exhausted
	for ; h.pos < len(h.want); h.pos++ {
		w := h.want[h.pos]
		if !h.lenient || in.mustRetain(w) {
			return in.errf("%s: iterator ended, missing %x@%d (expected sequence %s)", h.desc, w.Key, w.Version, descItems(h.want))
		}
	}
	return nil
}

func descItems(items []model.Item) string {
	var b bytes.Buffer
	for i, it := range items {
		if i > 0 {
			b.WriteByte(' ')
		}
		if i >= 24 {
			fmt.Fprintf(&b, "...(%d more)", len(items)-i)
			break
		}
		d := ""
		if it.Dead {
			d = "†"
		}
		fmt.Fprintf(&b, "%x@%d%s", it.Key, it.Version, d)
	}
	return "[" + b.String() + "]"
}

func (in *Interp) mustRetain(w model.Item) bool {
	if w.Pending {
		return true
	}
	for _, ts := range in.m.MustRetain(w.Key, in.wmax, in.keepN()) {
		if ts == w.Version {
			return true
		}
	}
	return false
}

func (in *Interp) keepN() int {
	n := in.P.Spec.NumVersionsToKeep
	if n <= 0 {
		n = math.MaxInt32
	}
	return n
}

func (in *Interp) doIter(ts *txnState, s IterSpec) error {
	o, mo, prefix, keyIter := in.iterOptions(ts, s)
	seek := in.seekKey(s, prefix)
	if keyIter != nil {
		seek = nil
		if s.Seek >= 0 && s.Seek%2 == 0 {
			seek = keyIter
		}
	}
	var overlay map[string]model.Ver
	if ts.rw && len(ts.pending) > 0 {
		overlay = ts.pending
	}
	want := in.m.Scan(ts.readTs, overlay, mo, seek)
	var it *badger.Iterator
	if keyIter != nil {
		it = ts.txn.NewKeyIterator(keyIter, o)
	} else {
		it = ts.txn.NewIterator(o)
	}
	if seek == nil {
		it.Rewind()
	} else {
		it.Seek(seek)
		if ts.rw {
			ts.reads[string(seek)] = true
		}
	}
	h := &heldIter{it: it, spec: s, want: want, lenient: (s.All || s.KeyIter),
		desc: fmt.Sprintf("iter@%d{rev=%v all=%v keyiter=%x prefix=%x since=%d seek=%x pf=%v/%d}", ts.readTs, s.Reverse, s.All || s.KeyIter, keyIter, o.Prefix, o.SinceTs, seek, o.PrefetchValues, o.PrefetchSize)}
	if s.All || s.KeyIter {
		in.St.IterAll++
	}
	if s.Reverse {
		in.St.IterRev++
	}
	if len(o.Prefix) > 0 {
		in.St.IterPrefix++
	}
	if o.SinceTs > 0 {
		in.St.IterSince++
	}
	if overlay != nil {
		in.St.PendingIter++
		for _, w := range want {
			if w.Pending {
				if len(in.m.Keys[string(w.Key)]) > 0 {
					in.St.PendingShadow++
				}
			}
		}
	}
	if s.Hold > 0 && !in.P.Spec.Managed {
		if err := in.compareNext(ts, h, s.Hold-1); err != nil {
			it.Close()
			return err
		}
		ts.iters = append(ts.iters, h)
		in.St.HeldIter++
		return nil
	}
	err := in.compareNext(ts, h, -1)
	it.Close()
	return err
}

// ---- writes --------------------------------------------------------------------------------------

func (in *Interp) doSet(ts *txnState, op Op) error {
	key := in.key(op.Key)
	in.seq++
	v := val(in.seq, op.VSize)
	e := badger.NewEntry(append([]byte{}, key...), v).WithMeta(op.Meta)
	ver := model.Ver{Val: v, UserMeta: op.Meta}
	if op.Disc {
		e = e.WithDiscard()
		ver.Discard = true
	}
	if op.TTL != 0 {
		exp := int64(in.m.Clock) + int64(op.TTL)
		if op.TTL == -100 {
			exp = int64(in.m.Clock) // expires exactly now (<= now is expired)
		}
		e.ExpiresAt = uint64(exp)
		ver.ExpiresAt = uint64(exp)
		in.St.Expiring++
	}
	if err := ts.txn.SetEntry(e); err != nil {
		if err == badger.ErrTxnTooBig {
			return nil // rejected, transaction unaffected
		}
		if in.P.Spec.InMemory && int64(len(v)) > in.db.VerifValueThreshold() {
			return nil // documented limit of InMemory mode: rejected, transaction unaffected
		}
		return in.errf("SetEntry(%x, %d bytes) error %v", key, len(v), err)
	}
	ts.pending[string(key)] = ver
	if int64(op.VSize) >= in.db.VerifValueThreshold() {
		in.St.VlogValues++
	}
	return nil
}

func (in *Interp) doDelete(ts *txnState, op Op) error {
	key := in.key(op.Key)
	if err := ts.txn.Delete(append([]byte{}, key...)); err != nil {
		if err == badger.ErrTxnTooBig {
			return nil
		}
		return in.errf("Delete(%x) error %v", key, err)
	}
	ts.pending[string(key)] = model.Ver{Deleted: true}
	return nil
}

func (in *Interp) expectConflict(ts *txnState) bool {
	if !in.P.Spec.DetectConflicts || !ts.rw || len(ts.reads) == 0 {
		return false
	}
	for _, c := range in.commits[min(in.conflictFrom, len(in.commits)):] {
		if c.ts <= ts.readTs {
			continue
		}
		for k := range ts.reads {
			if c.keys[k] {
				return true
			}
		}
	}
	return false
}

func (in *Interp) doCommit(slot int, op Op) error {
	ts := in.txns[slot]
	for _, h := range ts.iters {
		h.it.Close()
	}
	ts.iters = nil
	defer func() { in.txns[slot] = nil }()
	if !ts.rw || len(ts.pending) == 0 {
		var err error
		if in.P.Spec.Managed && ts.rw {
			err = ts.txn.CommitAt(ts.readTs+1, nil)
		} else if in.P.Spec.Managed {
			ts.txn.Discard()
		} else {
			err = ts.txn.Commit()
		}
		if err != nil {
			return in.errf("commit of a transaction without writes: %v", err)
		}
		return nil
	}
	wantConflict := in.expectConflict(ts)
	var commitTs uint64
	var err error
	storedMax := in.db.MaxVersion()
	if in.P.Spec.Managed {
		commitTs = in.managedCommitTs(ts, op.Ts)
		err = ts.txn.CommitAt(commitTs, nil)
	} else {
		err = ts.txn.Commit()
	}
	if err == badger.ErrConflict {
		if !wantConflict {
			return in.errf("Commit returned ErrConflict but no key read by the transaction (readTs %d, reads %v) was written by a later commit", ts.readTs, keysOf(ts.reads))
		}
		in.St.Conflicts++
		return nil
	}
	if err != nil {
		return in.errf("Commit error %v", err)
	}
	if wantConflict {
		return in.errf("Commit succeeded although the transaction (readTs %d) read keys %v written by a commit after its read timestamp", ts.readTs, keysOf(ts.reads))
	}
	if !in.P.Spec.Managed {
		r := in.db.NewTransaction(false)
		commitTs = r.ReadTs()
		r.Discard()
		if n := len(in.commits); n > 0 && commitTs <= in.commits[n-1].ts {
			return in.errf("commit timestamp %d is not above the previous commit timestamp %d", commitTs, in.commits[n-1].ts)
		}
		if commitTs <= ts.readTs {
			return in.errf("commit timestamp %d is not above the transaction's read timestamp %d", commitTs, ts.readTs)
		}
		if commitTs <= storedMax {
			return in.errf("commit timestamp %d is not above the largest stored version %d", commitTs, storedMax)
		}
	}
	keys := map[string]bool{}
	for k, v := range ts.pending {
		if len(in.m.Keys[k]) > 0 {
			in.St.Overwrites++
			if in.P.Spec.Managed && in.m.Keys[k][0].Ts > commitTs {
				in.St.ManagedLowerWrite++
				// Known finding managed-lower-write-above-purged-marker: this version is written
				// AFTER (physically above) a newer delete / expiring / discard-earlier entry of its
				// key; when a compaction purges that marker at the bottom, this version resurfaces.
				for _, w := range in.m.Keys[k] {
					if w.Ts > commitTs && (w.Deleted || w.ExpiresAt != 0 || w.Discard) {
						if in.lowStale == nil {
							in.lowStale = map[string]bool{}
						}
						in.lowStale[staleKey([]byte(k), commitTs)] = true
						break
					}
				}
			}
		}
		if v.Deleted {
			in.St.Deletes++
		}
		v.Ts = commitTs
		in.m.Write([]byte(k), v)
		keys[k] = true
		if len(in.m.Keys[k]) >= 2 {
			in.St.MultiVersionKeys++
		}
	}
	in.trace("committed at %d keys %v", commitTs, keysOf(keys))
	in.commits = append(in.commits, commitRec{ts: commitTs, keys: keys})
	in.St.Commits++
	if in.St.Reopens > 0 {
		in.St.CommitsAfterReopen++
	}
	return nil
}

func keysOf(m map[string]bool) []string {
	var out []string
	for k := range m {
		out = append(out, fmt.Sprintf("%x", k))
	}
	sort.Strings(out)
	return out
}

// managedCommitTs picks a caller timestamp that respects the documented managed-mode discipline:
// above the discard timestamp, and not equal to an existing version of a key being written.
func (in *Interp) managedCommitTs(ts *txnState, want uint64) uint64 {
	c := want
	if c <= in.discard {
		c = in.discard + 1
	}
	if c == 0 {
		c = 1
	}
	for {
		clash := false
		for k := range ts.pending {
			for _, v := range in.m.Keys[k] {
				if v.Ts == c {
					clash = true
				}
			}
		}
		if !clash {
			return c
		}
		c++
	}
}

// ---- maintenance ---------------------------------------------------------------------------------

func (in *Interp) noteLayout() {
	tabs := in.db.Tables()
	levels := map[int]bool{}
	for _, t := range tabs {
		levels[t.Level] = true
	}
	if len(tabs) > in.St.TablesMax {
		in.St.TablesMax = len(tabs)
	}
	if len(levels) > in.St.LevelsMax {
		in.St.LevelsMax = len(levels)
	}
	if len(levels) >= 2 {
		in.St.MultiLevel++
	}
}

// sampleWatermark raises wmax to an upper bound of the discard watermark a compaction starting
// now can observe. The read watermark is advanced by an asynchronous goroutine, so reading it
// before the compaction is not a bound; instead: managed mode = the discard timestamp we set;
// normal mode = the smallest read timestamp among open transactions (the watermark stays below
// a begun-but-not-done read), or, with none open, the newest timestamp handed out so far.
func (in *Interp) sampleWatermark() {
	var w uint64
	if in.P.Spec.Managed {
		w = in.discard
	} else {
		w = math.MaxUint64
		for _, t := range in.txns {
			if t != nil && t.readTs < w {
				w = t.readTs
			}
		}
		if w == math.MaxUint64 {
			w = in.m.MaxVersion()
			if n := len(in.commits); n > 0 && in.commits[n-1].ts > w {
				w = in.commits[n-1].ts
			}
		}
	}
	if w > in.wmax {
		in.wmax = w
	}
}

func (in *Interp) doFlush() error {
	if err := dbx.RelieveL0(in.db, 30); err != nil {
		return in.errf("relieve L0: %v", err)
	}
	ok, err := dbx.Flush(in.db)
	if err != nil {
		return in.errf("flush: %v", err)
	}
	if ok {
		in.St.Flushes++
	}
	if traceOn {
		in.trace("flushed=%v: MaxVersion=%d tables=%+v", ok, in.db.MaxVersion(), in.db.Tables())
	}
	in.epoch++
	in.noteLayout()
	return nil
}

func (in *Interp) doCompact(op Op) error {
	in.sampleWatermark()
	level := ((op.A % in.P.Spec.MaxLevels) + in.P.Spec.MaxLevels) % in.P.Spec.MaxLevels
	id := op.B % 3
	prio := badger.VerifPrio{Level: level, Score: 2, Adjusted: 2}
	switch op.T % 3 {
	case 1: // what worker 0 is handed when L0 has a score >= 1 but a low adjusted score: may fall back to L0->L0
		prio.Score, prio.Adjusted = 1.5, 0.5
	case 2: // the production picker's own choice, if it has one
		if ps := in.db.VerifPickCompactLevels(); len(ps) > 0 {
			prio = ps[0]
		}
	}
	l0before := len(in.db.VerifL0TableIDs())
	hadDelete := in.St.Deletes > 0
	err, none := in.db.VerifCompact(id, prio)
	if err != nil {
		return in.errf("compaction (level %d, id %d, prio %+v) failed: %v", level, id, prio, err)
	}
	if traceOn {
		in.trace("compact id=%d prio=%+v none=%v base=%d wmax=%d tables=%+v", id, prio, none, in.db.VerifBaseLevel(), in.wmax, in.db.Tables())
	}
	if !none {
		in.St.Compactions++
		if hadDelete {
			in.St.CompactAfterDelete++
		}
		if in.St.ExpiredObserved > 0 {
			in.St.CompactAfterExpiry++
		}
		if in.St.MultiVersionKeys > 0 {
			in.St.CompactedMultiVersion++
		}
		if prio.Level == 0 && in.db.VerifBaseLevel() != 0 {
			// L0->L0 leaves exactly one new L0 table and nothing moves to the base level
			l0after := len(in.db.VerifL0TableIDs())
			if prio.Adjusted < 1 && l0after < l0before && l0after >= 1 {
				in.St.L0toL0++
			}
		}
	}
	in.epoch++
	in.noteLayout()
	return nil
}

func (in *Interp) doGC(op Op) error {
	if in.P.Spec.InMemory {
		return nil
	}
	ratio := op.F
	if ratio <= 0 || ratio >= 1 {
		ratio = 0.01
	}
	before := in.db.VerifVlogFids()
	cands := in.staleCandidates()
	// op.A > 0: the next op.A ops of the program run INSIDE the rewrite, between its scan and its
	// write-back phase (the pause hook of the production code), if this GC call gets that far;
	// otherwise they simply run afterwards.
	var hookErr error
	if n := op.A; n > 0 && in.step+n < len(in.P.Ops) && in.P.Ops[in.step].Kind == "gc" {
		base := in.step
		fired := false
		in.db.VerifSetGCPauseHook(func() {
			if fired {
				return
			}
			fired = true
			in.St.GCPauseOps++
			// the rewrite writes large entries back while it is still scanning, i.e. before this
			// pause: versions that were already shadowed when it started may sit in the memtable now
			if in.stale == nil {
				in.stale = map[string]bool{}
			}
			for _, c := range cands {
				in.stale[c] = true
			}
			for j := 1; j <= n; j++ {
				sub := in.P.Ops[base+j]
				if sub.Kind == "gc" || sub.Kind == "reopen" {
					continue // not from inside a rewrite
				}
				in.step = base + j
				if err := in.execOp(sub); err != nil {
					hookErr = err
					break
				}
			}
			in.step = base
			in.skip = n
		})
		defer in.db.VerifSetGCPauseHook(nil)
	}
	err := in.db.RunValueLogGC(ratio)
	in.db.VerifSetGCPauseHook(nil)
	if hookErr != nil {
		return hookErr
	}
	in.St.GCRuns++
	// Any error means "this call collected nothing it can vouch for"; the statements constrain
	// what reads return, not whether a GC call succeeds. A failed rewrite may still have written
	// some entries back, so the stale-version bookkeeping treats it like a successful one.
	if err != badger.ErrNoRewrite && err != badger.ErrRejected {
		if err == nil {
			in.St.GCRewrites++
		} else {
			in.St.GCFailed++
		}
		_ = before
		if in.stale == nil {
			in.stale = map[string]bool{}
		}
		for _, c := range cands {
			in.stale[c] = true
		}
		// Every (key, version) pair the store holds when the rewrite has finished may be a moved
		// copy sitting in an upper level: if the key is deleted or overwritten LATER and a compaction
		// then purges the tombstone together with the original below it, the moved copy is what
		// readers get (same known finding). These pairs are only excused from the NEXT step on:
		// the full sweep right after this GC call still judges them (a tombstone purged while the
		// rewrite was in flight shows up there and is a violation, not the known finding).
		in.pendingStale = in.storedPairs()
	}
	in.epoch++
	return nil
}

// storedPairs lists every (key, version) pair the store holds.
func (in *Interp) storedPairs() []string {
	var out []string
	txn, _ := in.newReader()
	defer txn.Discard()
	o := badger.DefaultIteratorOptions
	o.AllVersions = true
	o.PrefetchValues = false
	it := txn.NewIterator(o)
	defer it.Close()
	for it.Rewind(); it.Valid(); it.Next() {
		out = append(out, staleKey(it.Item().Key(), it.Item().Version()))
	}
	return out
}

// staleCandidates lists the (key, version) pairs stored below a newer version of their key.
func (in *Interp) staleCandidates() []string {
	var out []string
	txn, _ := in.newReader()
	defer txn.Discard()
	o := badger.DefaultIteratorOptions
	o.AllVersions = true
	o.PrefetchValues = false
	it := txn.NewIterator(o)
	defer it.Close()
	var last []byte
	for it.Rewind(); it.Valid(); it.Next() {
		i := it.Item()
		if bytes.Equal(last, i.Key()) {
			out = append(out, staleKey(i.Key(), i.Version()))
		}
		last = i.KeyCopy(last)
	}
	return out
}

func (in *Interp) doReopen(op Op) error {
	in.dropAllTxns()
	if in.P.Spec.InMemory {
		return nil
	}
	if err := in.db.Close(); err != nil {
		in.db = nil
		return in.errf("Close: %v", err)
	}
	in.db = nil
	// a compaction on close / the next open may use everything committed as watermark
	if mv := in.m.MaxVersion(); mv > in.wmax {
		in.wmax = mv
	}
	if in.OnReopen != nil {
		if err := in.OnReopen(in); err != nil {
			return err
		}
	}
	if op.A%3 == 2 {
		if err := in.readOnlySession(); err != nil {
			return err
		}
	}
	mut := func(o *badger.Options) {
		if op.A%3 == 1 { // different compaction settings
			o.NumLevelZeroTables = o.NumLevelZeroTables%5 + 1
			o.BaseTableSize *= 2
			o.BaseLevelSize *= 2
			o.LevelSizeMultiplier = 12 - o.LevelSizeMultiplier
			o.CompactL0OnClose = !o.CompactL0OnClose
		}
	}
	db, err := in.P.Spec.Open(in.dir, mut)
	if err != nil {
		return in.errf("re-open: %v", err)
	}
	in.db = db
	in.conflictFrom = len(in.commits)
	if err := in.reconcileAfterReopen(); err != nil {
		return err
	}
	if traceOn {
		in.trace("reopened: MaxVersion=%d nextTxnTs=%d tables=%+v", db.MaxVersion(), db.VerifNextTxnTs(), db.Tables())
	}
	in.St.Reopens++
	if err := in.checkStructure(true); err != nil {
		return err
	}
	in.epoch++
	in.noteLayout()
	return nil
}

// reconcileAfterReopen handles timestamp reuse: when a compaction dropped every entry of the
// newest commits (dead versions with nothing left below them), a re-opened DB restarts its
// timestamps right above the largest version still stored. The statements promise that new
// commits are above every *stored* version (C11) and that re-open preserves read results (C07),
// not that timestamps never restart, so the model forgets what was legitimately dropped: a key
// whose newest version is above the restart point must be dead (otherwise an acknowledged live
// write was lost) and then none of its versions may be visible any more.
func (in *Interp) reconcileAfterReopen() error {
	if in.P.Spec.Managed {
		return nil
	}
	r := in.db.NewTransaction(false)
	R := r.ReadTs()
	r.Discard()
	if R >= in.m.MaxVersion() && (len(in.commits) == 0 || in.commits[len(in.commits)-1].ts <= R) {
		return nil
	}
	for k, vs := range in.m.Keys {
		if len(vs) == 0 || vs[0].Ts <= R {
			continue
		}
		if !in.m.Dead(vs[0]) {
			return in.errf("after re-open the DB restarts timestamps at %d, below the live version %x@%d of an acknowledged commit", R+1, k, vs[0].Ts)
		}
		delete(in.m.Keys, k)
	}
	in.TsRestarts++
	kept := in.commits[:0]
	for _, c := range in.commits {
		if c.ts <= R {
			kept = append(kept, c)
		}
	}
	in.commits = kept
	in.conflictFrom = len(in.commits)
	return nil
}

func (in *Interp) doClock(op Op) {
	// An iterator evaluates expiry when it parses an entry (partly ahead of time, while
	// prefetching), so what a half-consumed iterator yields after the clock moved depends on how
	// far it had read ahead. Held iterators are therefore closed before the clock advances.
	for _, ts := range in.txns {
		if ts != nil {
			for _, h := range ts.iters {
				h.it.Close()
			}
			ts.iters = nil
		}
	}
	d := op.A
	if d <= 0 {
		d = 1
	}
	in.m.Clock += uint64(d)
	y.VerifSetClock(in.m.Clock)
	in.St.ClockAdvances++
}

// checkStructure is the C14 predicate on the live tree: every level below L0 holds tables in key
// order whose key ranges are disjoint even by user key (all versions of a key in one table), the
// production level validation passes, and (on disk) the *.sst files are exactly the live tables.
func (in *Interp) checkStructure(afterOpen bool) error {
	if err := in.db.VerifValidateLevels(); err != nil {
		return in.errf("level validation fails: %v", err)
	}
	tabs := in.db.Tables()
	byLevel := map[int][]badger.TableInfo{}
	ids := map[uint64]bool{}
	for _, t := range tabs {
		byLevel[t.Level] = append(byLevel[t.Level], t)
		if ids[t.ID] {
			return in.errf("table id %d listed twice", t.ID)
		}
		ids[t.ID] = true
	}
	for lvl, ts := range byLevel {
		if lvl == 0 {
			continue
		}
		sort.Slice(ts, func(i, j int) bool { return y.CompareKeys(ts[i].Left, ts[j].Left) < 0 })
		for i := range ts {
			if y.CompareKeys(ts[i].Left, ts[i].Right) > 0 {
				return in.errf("level %d table %d has smallest key above biggest key", lvl, ts[i].ID)
			}
			if i > 0 {
				a, b := y.ParseKey(ts[i-1].Right), y.ParseKey(ts[i].Left)
				if bytes.Compare(a, b) >= 0 {
					return in.errf("level %d: tables %d and %d are not disjoint by user key (%x >= %x): versions of one key are split across tables or ranges overlap", lvl, ts[i-1].ID, ts[i].ID, a, b)
				}
			}
		}
		if len(ts) >= 2 {
			in.St.MultiTableLevel++
		}
	}
	if afterOpen && !in.P.Spec.InMemory {
		ents, err := os.ReadDir(in.dir)
		if err != nil {
			return in.errf("readdir: %v", err)
		}
		onDisk := map[uint64]bool{}
		for _, e := range ents {
			if id, ok := table.ParseFileID(e.Name()); ok {
				onDisk[id] = true
			}
		}
		for id := range ids {
			if !onDisk[id] {
				return in.errf("table %d is in the MANIFEST/levels but has no .sst file", id)
			}
		}
		for id := range onDisk {
			if !ids[id] {
				return in.errf("file %06d.sst exists after Open but is not part of the tree", id)
			}
		}
	}
	return nil
}

// dirHash is a digest of names, sizes and contents of every file under the DB directory.
func dirHash(dir string) (string, error) {
	h := sha256.New()
	ents, err := os.ReadDir(dir)
	if err != nil {
		return "", err
	}
	for _, e := range ents {
		if e.Name() == "LOCK" {
			continue // the pid/lock file is not data (read-only opens take a shared lock on it)
		}
		b, err := os.ReadFile(filepath.Join(dir, e.Name()))
		if err != nil {
			return "", err
		}
		fmt.Fprintf(h, "%s:%d:", e.Name(), len(b))
		h.Write(b)
	}
	return fmt.Sprintf("%x", h.Sum(nil)), nil
}

// readOnlySession opens the closed DB read-only, reads everything and checks that no file was
// modified, created or deleted (C07).
func (in *Interp) readOnlySession() error {
	before, err := dirHash(in.dir)
	if err != nil {
		return in.errf("hash: %v", err)
	}
	db, err := in.P.Spec.Open(in.dir, func(o *badger.Options) { o.ReadOnly = true })
	if err != nil {
		return in.errf("read-only open: %v", err)
	}
	in.db = db
	in.conflictFrom = len(in.commits)
	cerr := in.reconcileAfterReopen()
	if cerr == nil {
		cerr = in.CheckAll()
	}
	during, herr := dirHash(in.dir)
	in.db = nil
	if err := db.Close(); err != nil && cerr == nil {
		cerr = in.errf("closing the read-only DB: %v", err)
	}
	if cerr != nil {
		return cerr
	}
	after, herr2 := dirHash(in.dir)
	if herr != nil || herr2 != nil {
		return in.errf("hash: %v %v", herr, herr2)
	}
	if during != before || after != before {
		return in.errf("a read-only open changed the directory (digest before %s, while open %s, after close %s)", before[:12], during[:12], after[:12])
	}
	in.St.ReadOnlyOpens++
	return nil
}

// CheckAll compares every pool key (Get in a fresh reader and in every open transaction) and full
// scans (forward, reverse, all versions) of a fresh reader with the model.
func (in *Interp) CheckAll() error {
	in.St.CheckAlls++
	if err := in.checkStructure(false); err != nil {
		return err
	}
	if thr := in.db.VerifValueThreshold(); in.thr0 != 0 && thr != in.thr0 {
		in.St.ThresholdCrossed++
	}
	for _, ts := range in.txns {
		if ts == nil {
			continue
		}
		if in.P.Spec.Managed && ts.readTs < in.discard {
			continue // reads below the discard timestamp are not promised
		}
		for _, k := range in.allKeys() {
			if err := in.doGet(ts, k, false); err != nil {
				return err
			}
		}
	}
	txn, rts := in.newReader()
	fresh := &txnState{txn: txn, readTs: rts, begunAt: in.epoch, commitAt: len(in.commits)}
	defer txn.Discard()
	for _, k := range in.allKeys() {
		if err := in.doGet(fresh, k, false); err != nil {
			return err
		}
	}
	for _, s := range []IterSpec{{Prefix: -1, Seek: -1}, {Prefix: -1, Seek: -1, Reverse: true, NoPrefetch: true}, {Prefix: -1, Seek: -1, All: true}} {
		if err := in.doIter(fresh, s); err != nil {
			return err
		}
	}
	return nil
}

// ---- main loop -----------------------------------------------------------------------------------

// Exec runs the whole program.
func (in *Interp) Exec() error {
	for i, op := range in.P.Ops {
		if in.skip > 0 { // already executed inside a value-log GC pause (see doGC)
			in.skip--
			continue
		}
		in.step = i
		if err := in.execOp(op); err != nil {
			return in.filterKnown(err)
		}
		if in.AfterOp != nil {
			if err := in.AfterOp(in); err != nil {
				return err
			}
		}
	}
	in.step = len(in.P.Ops)
	return in.filterKnown(in.CheckAll())
}

func (in *Interp) filterKnown(err error) error {
	if err == errKnown {
		in.St.Excluded++
		in.St.HitKnown++
		return nil
	}
	return err
}

func (in *Interp) slot(op Op) int { return ((op.T % 4) + 4) % 4 }

var traceOn = os.Getenv("VERIF_TRACE") != ""

func (in *Interp) trace(format string, a ...any) {
	if traceOn {
		fmt.Fprintf(os.Stderr, "TRACE step %d: %s\n", in.step, fmt.Sprintf(format, a...))
	}
}

func (in *Interp) execOp(op Op) error {
	if traceOn {
		in.trace("op %s t=%d key=%x vs=%d ts=%d a=%d b=%d", op.Kind, in.slot(op), in.key(op.Key), op.VSize, op.Ts, op.A, op.B)
	}
	switch op.Kind {
	case "begin":
		s := in.slot(op)
		in.dropTxn(s)
		ts := &txnState{rw: op.RW, pending: map[string]model.Ver{}, reads: map[string]bool{}, begunAt: in.epoch, commitAt: len(in.commits)}
		if in.P.Spec.Managed {
			r := op.Ts
			if r < in.discard {
				r = in.discard
			}
			ts.txn = in.db.NewTransactionAt(r, op.RW)
			ts.readTs = r
		} else {
			ts.txn = in.db.NewTransaction(op.RW)
			ts.readTs = ts.txn.ReadTs()
			if n := len(in.commits); n > 0 && ts.readTs < in.commits[n-1].ts {
				return in.errf("new transaction got read timestamp %d below the last acknowledged commit %d", ts.readTs, in.commits[n-1].ts)
			}
		}
		in.trace("begin rw=%v readTs=%d", op.RW, ts.readTs)
		open := 0
		for _, t := range in.txns {
			if t != nil {
				open++
			}
		}
		if open > 0 {
			in.St.ConcurrentTxnReads++
		}
		in.txns[s] = ts
	case "set", "del", "get", "gethold", "iter", "commit", "discard", "itemread", "iterdrain":
		s := in.slot(op)
		ts := in.txns[s]
		if ts == nil {
			return nil // no such transaction: the op is a no-op (keeps sub-sequences valid)
		}
		switch op.Kind {
		case "set":
			if ts.rw {
				return in.doSet(ts, op)
			}
		case "del":
			if ts.rw {
				return in.doDelete(ts, op)
			}
		case "get":
			return in.doGet(ts, in.key(op.Key), false)
		case "gethold":
			return in.doGet(ts, in.key(op.Key), true)
		case "iter":
			if op.It != nil {
				return in.doIter(ts, *op.It)
			}
		case "commit":
			return in.doCommit(s, op)
		case "discard":
			in.dropTxn(s)
		case "itemread":
			for _, h := range ts.items {
				if !in.Strict && in.St.GCRewrites > h.gcAt {
					// Known finding get-item-across-gc: an item obtained from Txn.Get does not pin its
					// value log file; after a GC rewrite deleted the file its value reads as empty.
					in.St.Excluded++
					continue
				}
				got, err := h.item.ValueCopy(nil)
				if err != nil {
					return in.errf("held Get item %x@%d: ValueCopy error %v", h.key, h.want.Ts, err)
				}
				if !bytes.Equal(got, h.want.Val) {
					return in.errf("held Get item %x@%d: value (len %d) differs from the written one (len %d) while its transaction is still open", h.key, h.want.Ts, len(got), len(h.want.Val))
				}
			}
		case "iterdrain":
			for _, h := range ts.iters {
				if err := in.compareNext(ts, h, -1); err != nil {
					return err
				}
				h.it.Close()
			}
			ts.iters = nil
		}
	case "flush":
		if err := in.doFlush(); err != nil {
			return err
		}
		return in.CheckAll()
	case "compact":
		if err := in.doCompact(op); err != nil {
			return err
		}
		return in.CheckAll()
	case "backdate":
		d := 11 * time.Second
		if op.A%2 == 1 {
			d = 2 * time.Hour
		}
		in.db.VerifBackdateTables(d)
	case "gc":
		if err := in.doGC(op); err != nil {
			return err
		}
		if err := in.CheckAll(); err != nil {
			return err
		}
		for _, c := range in.pendingStale {
			in.stale[c] = true
		}
		in.pendingStale = nil
		return nil
	case "reopen":
		if err := in.doReopen(op); err != nil {
			return err
		}
		return in.CheckAll()
	case "clock":
		in.doClock(op)
	case "discardts":
		if in.P.Spec.Managed {
			// raise only; never above the lowest read timestamp of an open transaction
			nd := in.discard + uint64(op.A%5)
			for _, t := range in.txns {
				if t != nil && t.readTs < nd {
					nd = t.readTs
				}
			}
			if nd > in.discard {
				in.discard = nd
				in.db.SetDiscardTs(nd)
				in.St.DiscardMoves++
			}
		}
	case "check":
		return in.CheckAll()
	default:
		if f := in.Ext[op.Kind]; f != nil {
			return f(in, op)
		}
		return errors.New("unknown op kind " + op.Kind)
	}
	return nil
}

// Run opens, executes and closes; it is the entry point the tests use.
func Run(p Program, setup func(in *Interp)) (*Interp, error) {
	in := &Interp{P: p}
	if setup != nil {
		setup(in)
	}
	if err := in.Open(); err != nil {
		return in, err
	}
	defer in.Close()
	err := in.Exec()
	return in, err
}
