// Package evid collects per-check coverage counters and writes them as a JSON shard file that
// check.py merges into /verif/evidence/<id>.json.
package evid

import (
	"encoding/json"
	"fmt"
	"hash/fnv"
	"os"
	"path/filepath"
	"sort"
	"sync"
)

// Rec accumulates evidence for one property check within one process (shard).
type Rec struct {
	mu          sync.Mutex
	ID          string
	Part        string // sub-check name (a property may be decided by several tests)
	Rule        string
	Evaluations int
	nontriv     map[uint64]struct{}
	Classes     map[string]int
	Samples     []any
	Excluded    int
	Assumptions []string
	Extra       map[string]int
	maxSamples  int
}

// New creates a recorder. rule states how cases are generated and what makes one non-trivial.
func New(id, part, rule string) *Rec {
	return &Rec{ID: id, Part: part, Rule: rule, nontriv: map[uint64]struct{}{}, Classes: map[string]int{},
		Extra: map[string]int{}, maxSamples: 4}
}

// Hash is FNV-64a over the JSON encoding of v (distinctness of cases).
func Hash(v any) uint64 {
	b, err := json.Marshal(v)
	if err != nil {
		b = []byte(fmt.Sprintf("%#v", v))
	}
	h := fnv.New64a()
	h.Write(b)
	return h.Sum64()
}

// Case records one executed case.
func (r *Rec) Case(hash uint64, nontrivial bool, classes []string, sample func() any) {
	r.mu.Lock()
	defer r.mu.Unlock()
	r.Evaluations++
	for _, c := range classes {
		r.Classes[c]++
	}
	if nontrivial {
		if _, ok := r.nontriv[hash]; !ok {
			r.nontriv[hash] = struct{}{}
			if len(r.Samples) < r.maxSamples && sample != nil {
				r.Samples = append(r.Samples, sample())
			}
		}
	}
}

// Add bumps a free-form counter.
func (r *Rec) Add(name string, n int) {
	r.mu.Lock()
	r.Extra[name] += n
	r.mu.Unlock()
}

// Exclude counts a case (or comparison) excluded because it matches a known finding.
func (r *Rec) Exclude(n int) {
	r.mu.Lock()
	r.Excluded += n
	r.mu.Unlock()
}

// Assume records an assumption text once.
func (r *Rec) Assume(s string) {
	r.mu.Lock()
	defer r.mu.Unlock()
	for _, a := range r.Assumptions {
		if a == s {
			return
		}
	}
	r.Assumptions = append(r.Assumptions, s)
}

type shard struct {
	ID          string         `json:"id"`
	Part        string         `json:"part"`
	Rule        string         `json:"rule"`
	Evaluations int            `json:"evaluations"`
	Hashes      []uint64       `json:"hashes"`
	Classes     map[string]int `json:"classes"`
	Samples     []any          `json:"samples"`
	Excluded    int            `json:"excluded_known"`
	Assumptions []string       `json:"assumptions"`
	Extra       map[string]int `json:"extra"`
}

// Flush writes the shard file into $VERIF_EVID_DIR (no-op when unset).
func (r *Rec) Flush() {
	dir := os.Getenv("VERIF_EVID_DIR")
	if dir == "" {
		return
	}
	r.mu.Lock()
	defer r.mu.Unlock()
	hs := make([]uint64, 0, len(r.nontriv))
	for h := range r.nontriv {
		hs = append(hs, h)
	}
	sort.Slice(hs, func(i, j int) bool { return hs[i] < hs[j] })
	s := shard{ID: r.ID, Part: r.Part, Rule: r.Rule, Evaluations: r.Evaluations, Hashes: hs, Classes: r.Classes,
		Samples: r.Samples, Excluded: r.Excluded, Assumptions: r.Assumptions, Extra: r.Extra}
	b, _ := json.Marshal(s)
	name := fmt.Sprintf("%s-%s-%d.json", r.ID, r.Part, os.Getpid())
	_ = os.WriteFile(filepath.Join(dir, name), b, 0o644)
}
