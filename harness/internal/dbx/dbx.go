// Package dbx turns a JSON-serialisable option spec into badger.Options, generates such specs,
// and owns the deterministic LSM driver operations (flush, picker-selected compaction, GC).
package dbx

import (
	"fmt"
	"math"
	"os"
	"time"

	badger "github.com/dgraph-io/badger/v4"
	"github.com/dgraph-io/badger/v4/options"
	"pgregory.net/rapid"
)

// Spec is the generated configuration of one DB.
type Spec struct {
	MemTableSize        int64
	BaseTableSize       int64
	BaseLevelSize       int64
	BlockSize           int
	MaxLevels           int
	LevelSizeMultiplier int
	TableSizeMultiplier int
	NumLevelZeroTables  int
	NumMemtables        int
	ValueThreshold      int64
	VLogPercentile      float64
	ValueLogMaxEntries  uint32
	Compression         int
	EncKeyLen           int
	EncRotateEveryFile  bool
	BloomFP             float64
	ChkMode             int
	VerifyValueChecksum bool
	NumVersionsToKeep   int
	DetectConflicts     bool
	InMemory            bool
	Managed             bool
	SyncWrites          bool
	BlockCache          bool
	IndexCache          bool
	NamespaceOffset     int
	CompactL0OnClose    bool
	ExternalMagic       uint16
	ManifestRewriteAt   int // >0: rewrite the MANIFEST after this many deletions (default 10000)
	AltKey              bool `json:",omitempty"` // the master key is AltEncKey (after a master-key rotation)
}

// EncKey is the master key material (first EncKeyLen bytes are used).
var EncKey = []byte("master-key-0123456789ABCDEFGHIJK")

// AltEncKey is a second master key (wrong-key opens, rotation).
var AltEncKey = []byte("another-key-zyxwvutsrqponmlkjihg")

// Default returns a small fixed configuration.
func Default() Spec {
	return Spec{MemTableSize: 1 << 16, BaseTableSize: 1 << 13, BaseLevelSize: 1 << 14, BlockSize: 512, MaxLevels: 4,
		LevelSizeMultiplier: 2, TableSizeMultiplier: 2, NumLevelZeroTables: 2, NumMemtables: 3, ValueThreshold: 32,
		ValueLogMaxEntries: 1 << 20, BloomFP: 0.01, NumVersionsToKeep: 1, DetectConflicts: true, NamespaceOffset: -1}
}

// Gen draws a configuration. Constraints the code imposes are built in, not filtered.
type GenCfg struct {
	AllowInMemory bool
	AllowManaged  bool
	ForceManaged  bool
	ForceNormal   bool
	AllowEnc      bool
	KeepVersions  []int // candidates for NumVersionsToKeep (default {1})
}

func Gen(t *rapid.T, g GenCfg) Spec {
	s := Default()
	s.MemTableSize = rapid.SampledFrom([]int64{1 << 13, 1 << 14, 1 << 15, 1 << 16}).Draw(t, "memtable")
	s.BaseTableSize = rapid.SampledFrom([]int64{1 << 11, 1 << 12, 1 << 13, 1 << 14}).Draw(t, "basetable")
	s.BaseLevelSize = rapid.SampledFrom([]int64{1 << 12, 1 << 13, 1 << 14, 1 << 16}).Draw(t, "baselevel")
	s.BlockSize = rapid.SampledFrom([]int{128, 512, 4096}).Draw(t, "blocksize")
	s.MaxLevels = rapid.IntRange(3, 7).Draw(t, "maxlevels")
	s.LevelSizeMultiplier = rapid.SampledFrom([]int{2, 10}).Draw(t, "lsm")
	s.TableSizeMultiplier = rapid.SampledFrom([]int{1, 2}).Draw(t, "tsm")
	s.NumLevelZeroTables = rapid.SampledFrom([]int{1, 2, 5}).Draw(t, "l0tables")
	s.NumMemtables = rapid.SampledFrom([]int{1, 2, 5}).Draw(t, "nmem")
	maxThr := s.MemTableSize * 15 / 100
	thr := rapid.SampledFrom([]int64{1, 16, 32, 64, 1024}).Draw(t, "threshold")
	if thr > maxThr {
		thr = maxThr
	}
	s.ValueThreshold = thr
	s.VLogPercentile = rapid.SampledFrom([]float64{0, 0, 0.5, 0.99}).Draw(t, "percentile")
	s.ValueLogMaxEntries = uint32(rapid.SampledFrom([]int{3, 8, 50, 1 << 20}).Draw(t, "vlogmax"))
	s.Compression = rapid.IntRange(0, 2).Draw(t, "compression")
	if g.AllowEnc {
		s.EncKeyLen = rapid.SampledFrom([]int{0, 0, 16, 24, 32}).Draw(t, "enc")
		s.EncRotateEveryFile = rapid.Bool().Draw(t, "encrotate")
	}
	s.BloomFP = rapid.SampledFrom([]float64{0, 0.01, 0.5}).Draw(t, "bloom")
	s.ChkMode = rapid.IntRange(0, 3).Draw(t, "chkmode")
	s.VerifyValueChecksum = rapid.Bool().Draw(t, "vchk")
	kv := g.KeepVersions
	if len(kv) == 0 {
		kv = []int{1}
	}
	s.NumVersionsToKeep = rapid.SampledFrom(kv).Draw(t, "keepversions")
	s.DetectConflicts = rapid.IntRange(0, 3).Draw(t, "detect") != 0
	if g.AllowInMemory {
		s.InMemory = rapid.IntRange(0, 4).Draw(t, "inmemory") == 0
	}
	switch {
	case g.ForceManaged:
		s.Managed = true
	case g.ForceNormal:
		s.Managed = false
	case g.AllowManaged:
		s.Managed = rapid.IntRange(0, 3).Draw(t, "managed") == 0
	}
	s.BlockCache = rapid.Bool().Draw(t, "blockcache") || s.Compression != 0 || s.EncKeyLen > 0
	s.IndexCache = rapid.Bool().Draw(t, "indexcache") || s.EncKeyLen > 0
	s.CompactL0OnClose = rapid.IntRange(0, 3).Draw(t, "l0onclose") == 0
	s.ExternalMagic = rapid.SampledFrom([]uint16{0, 0, 7}).Draw(t, "extmagic")
	s.ManifestRewriteAt = rapid.SampledFrom([]int{0, 0, 1, 4}).Draw(t, "manifestrewrite")
	return s
}

// MasterKey returns the master key the spec opens the DB with (nil: no encryption).
func (s Spec) MasterKey() []byte {
	if s.EncKeyLen == 0 {
		return nil
	}
	if s.AltKey {
		return AltEncKey[:s.EncKeyLen]
	}
	return EncKey[:s.EncKeyLen]
}

// Options converts the spec.
func (s Spec) Options(dir string) badger.Options {
	o := badger.DefaultOptions(dir)
	if s.InMemory {
		o = badger.DefaultOptions("").WithInMemory(true)
	}
	o.MemTableSize = s.MemTableSize
	o.BaseTableSize = s.BaseTableSize
	o.BaseLevelSize = s.BaseLevelSize
	o.BlockSize = s.BlockSize
	o.MaxLevels = s.MaxLevels
	o.LevelSizeMultiplier = s.LevelSizeMultiplier
	o.TableSizeMultiplier = s.TableSizeMultiplier
	o.NumLevelZeroTables = s.NumLevelZeroTables
	o.NumLevelZeroTablesStall = 40 // the harness owns compaction; never let a flush stall forever
	o.NumMemtables = s.NumMemtables
	o.ValueThreshold = s.ValueThreshold
	o.VLogPercentile = s.VLogPercentile
	o.ValueLogFileSize = 1 << 20
	o.ValueLogMaxEntries = s.ValueLogMaxEntries
	o.Compression = options.CompressionType(s.Compression)
	o.ZSTDCompressionLevel = 1
	if s.EncKeyLen > 0 {
		o.EncryptionKey = s.MasterKey()
		if s.EncRotateEveryFile {
			o.EncryptionKeyRotationDuration = time.Nanosecond
		}
	}
	o.BloomFalsePositive = s.BloomFP
	o.ChecksumVerificationMode = options.ChecksumVerificationMode(s.ChkMode)
	o.VerifyValueChecksum = s.VerifyValueChecksum
	o.NumVersionsToKeep = s.NumVersionsToKeep
	if o.NumVersionsToKeep <= 0 {
		o.NumVersionsToKeep = math.MaxInt32
	}
	o.DetectConflicts = s.DetectConflicts
	o.SyncWrites = s.SyncWrites
	o.NumCompactors = 0
	o.CompactL0OnClose = s.CompactL0OnClose
	o.MetricsEnabled = false
	o.NamespaceOffset = s.NamespaceOffset
	o.ExternalMagicVersion = s.ExternalMagic
	o.BlockCacheSize, o.IndexCacheSize = 0, 0
	if s.BlockCache || s.Compression != 0 || s.EncKeyLen > 0 {
		o.BlockCacheSize = 1 << 20
	}
	if s.IndexCache || s.EncKeyLen > 0 {
		o.IndexCacheSize = 1 << 20
	}
	if os.Getenv("VERIF_REPLAY") != "" && os.Getenv("VERIF_DBLOG") != "" {
		o = o.WithLoggingLevel(badger.INFO)
	} else {
		o.Logger = nil
	}
	return o
}

// Open opens the DB described by the spec.
func (s Spec) Open(dir string, mut func(*badger.Options)) (*badger.DB, error) {
	o := s.Options(dir)
	if mut != nil {
		mut(&o)
	}
	var db *badger.DB
	var err error
	if s.Managed {
		db, err = badger.OpenManaged(o)
	} else {
		db, err = badger.Open(o)
	}
	if err == nil && s.ManifestRewriteAt > 0 && !o.ReadOnly {
		db.VerifSetManifestRewriteThreshold(s.ManifestRewriteAt)
	}
	return db, err
}

// Flush rotates the active memtable (if non-empty) and waits for the flush queue to drain.
// The caller guarantees that no write is in flight.
func Flush(db *badger.DB) (bool, error) {
	ok, err := db.VerifRotate()
	if err != nil {
		return false, fmt.Errorf("rotate: %w", err)
	}
	db.VerifWaitFlushed()
	return ok, nil
}

// L0Count returns the number of L0 tables.
func L0Count(db *badger.DB) int {
	n := 0
	for _, t := range db.Tables() {
		if t.Level == 0 {
			n++
		}
	}
	return n
}

// RelieveL0 compacts L0 into the base level while it holds many tables, so that flushes never
// reach the stall limit (no background compactors are running).
func RelieveL0(db *badger.DB, limit int) error {
	for i := 0; i < 64 && L0Count(db) >= limit; i++ {
		err, none := db.VerifCompact(1, badger.VerifPrio{Level: 0, Score: 2, Adjusted: 2})
		if err != nil {
			return err
		}
		if none {
			break
		}
	}
	return nil
}
