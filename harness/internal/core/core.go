// Package core is the glue between rapid, the evidence recorder, the journal (for failures that
// kill the process) and the plain replay path (re-running a saved program without rapid).
package core

import (
	"encoding/json"
	"fmt"
	"os"
	"path/filepath"
	"runtime/debug"
	"strings"
	"testing"

	"pgregory.net/rapid"

	"verifharness/internal/evid"
)

// Result is what one executed case reports back besides its verdict.
type Result struct {
	NonTrivial bool
	Classes    []string
	Excluded   int // comparisons / cases skipped because they match a known finding
}

// File is the on-disk form of a failing (or journalled) case.
type File struct {
	Property string          `json:"property"`
	Test     string          `json:"test"`
	Message  string          `json:"message,omitempty"`
	Program  json.RawMessage `json:"program"`
}

func sanitize(s string) string { return strings.NewReplacer("/", "_", " ", "_").Replace(s) }

func writeFile(dirEnv, kind string, t *testing.T, id string, p any, msg string) {
	dir := os.Getenv(dirEnv)
	if dir == "" {
		return
	}
	b, err := json.Marshal(p)
	if err != nil {
		b = []byte(fmt.Sprintf("%q", fmt.Sprintf("%#v", p)))
	}
	f := File{Property: id, Test: t.Name(), Message: msg, Program: b}
	out, _ := json.MarshalIndent(f, "", " ")
	name := fmt.Sprintf("%s-%s-%d.json", kind, sanitize(t.Name()), os.Getpid())
	_ = os.WriteFile(filepath.Join(dir, name), out, 0o644)
}

// safeRun converts a panic on the test goroutine into an oracle failure, so that the failing
// program is saved like any other failure (rapid would otherwise only print the draws).
func safeRun[P any](run func(p P, rec *evid.Rec) (Result, error), p P, rec *evid.Rec) (res Result, err error) {
	defer func() {
		if r := recover(); r != nil {
			err = fmt.Errorf("panic in the code under test: %v\n%s", r, debug.Stack())
		}
	}()
	return run(p, rec)
}

// Replaying reports whether this process is a plain replay run.
func Replaying() bool { return os.Getenv("VERIF_REPLAY") != "" }

// Thorough reports the tier.
func Thorough() bool { return os.Getenv("VERIF_TIER") == "thorough" }

// Run drives one property check: under rapid (campaign) or from a saved file (replay).
// gen draws a program; run executes it against the code under test and its oracle and returns a
// non-nil error on an oracle failure. P must round-trip through encoding/json.
func Run[P any](t *testing.T, id, part, rule string, gen func(*rapid.T) P,
	run func(p P, rec *evid.Rec) (Result, error)) {
	rec := evid.New(id, part, rule)
	defer rec.Flush()

	if path := os.Getenv("VERIF_REPLAY"); path != "" {
		raw, err := os.ReadFile(path)
		if err != nil {
			t.Fatalf("replay: %v", err)
		}
		var f File
		if err := json.Unmarshal(raw, &f); err != nil {
			t.Fatalf("replay: %v", err)
		}
		if f.Test != t.Name() {
			t.Skipf("replay file is for %s", f.Test)
		}
		var p P
		if err := json.Unmarshal(f.Program, &p); err != nil {
			t.Fatalf("replay: decoding program: %v", err)
		}
		res, err := safeRun(run, p, rec)
		rec.Case(evid.Hash(p), res.NonTrivial, res.Classes, func() any { return p })
		if err != nil {
			fmt.Printf("REPLAY-FAIL property=%s test=%s: %v\n", id, t.Name(), err)
			t.Fatalf("replay failed: %v", err)
		}
		fmt.Printf("REPLAY-PASS property=%s test=%s\n", id, t.Name())
		return
	}

	journalOn := os.Getenv("VERIF_JOURNAL_DIR") != ""
	rapid.Check(t, func(rt *rapid.T) {
		p := gen(rt)
		if journalOn {
			writeFile("VERIF_JOURNAL_DIR", "journal", t, id, p, "process died while executing this case")
		}
		res, err := safeRun(run, p, rec)
		rec.Case(evid.Hash(p), res.NonTrivial, res.Classes, func() any { return p })
		if res.Excluded > 0 {
			rec.Exclude(res.Excluded)
		}
		if err != nil {
			writeFile("VERIF_FAIL_DIR", "fail", t, id, p, err.Error())
			rt.Fatalf("%v", err)
		}
	})
	if journalOn {
		name := fmt.Sprintf("journal-%s-%d.json", sanitize(t.Name()), os.Getpid())
		_ = os.Remove(filepath.Join(os.Getenv("VERIF_JOURNAL_DIR"), name))
	}
}

// Scratch returns a fresh scratch directory on tmpfs (falling back to the test temp dir).
func Scratch(prefix string) string {
	base := "/dev/shm"
	if st, err := os.Stat(base); err != nil || !st.IsDir() {
		base = os.TempDir()
	}
	d, err := os.MkdirTemp(base, "verif-"+prefix+"-")
	if err != nil {
		panic(err)
	}
	return d
}
