// Package model is the reference MVCC store used as the oracle by the DB-level checks.
// It asserts only what the property statements promise (see DESIGN.md §2.2 / §2.2a).
package model

import (
	"bytes"
	"sort"
)

// Ver is one written version of a key.
type Ver struct {
	Ts        uint64
	Val       []byte
	UserMeta  byte
	ExpiresAt uint64
	Deleted   bool
	Discard   bool // written WithDiscard (discard-earlier-versions)
	Merge     bool // written by a merge operator
}

// Model maps user keys to their version lists (newest first).
type Model struct {
	Keys  map[string][]Ver
	Clock uint64 // virtual unix time
}

// New returns an empty model.
func New(clock uint64) *Model { return &Model{Keys: map[string][]Ver{}, Clock: clock} }

// Clone deep-copies the version lists (values are shared, they are immutable).
func (m *Model) Clone() *Model {
	c := New(m.Clock)
	for k, vs := range m.Keys {
		c.Keys[k] = append([]Ver(nil), vs...)
	}
	return c
}

// Write records a version; a second write of the same (key, ts) replaces the first.
func (m *Model) Write(key []byte, v Ver) {
	vs := m.Keys[string(key)]
	i := sort.Search(len(vs), func(i int) bool { return vs[i].Ts <= v.Ts })
	if i < len(vs) && vs[i].Ts == v.Ts {
		vs[i] = v
	} else {
		vs = append(vs, Ver{})
		copy(vs[i+1:], vs[i:])
		vs[i] = v
	}
	m.Keys[string(key)] = vs
}

// Dead reports whether a version hides its key (delete marker or expired at the model clock).
func (m *Model) Dead(v Ver) bool {
	return v.Deleted || (v.ExpiresAt != 0 && v.ExpiresAt <= m.Clock)
}

// Newest returns the newest version at or below ts (nil if none), dead or not.
func (m *Model) Newest(key []byte, ts uint64) *Ver {
	vs := m.Keys[string(key)]
	i := sort.Search(len(vs), func(i int) bool { return vs[i].Ts <= ts })
	if i == len(vs) {
		return nil
	}
	v := vs[i]
	return &v
}

// Visible returns what a read at ts must return for key: nil when absent, deleted or expired.
func (m *Model) Visible(key []byte, ts uint64) *Ver {
	v := m.Newest(key, ts)
	if v == nil || m.Dead(*v) {
		return nil
	}
	return v
}

// MaxVersion is the largest version stored.
func (m *Model) MaxVersion() uint64 {
	var mx uint64
	for _, vs := range m.Keys {
		if len(vs) > 0 && vs[0].Ts > mx {
			mx = vs[0].Ts
		}
	}
	return mx
}

// SortedKeys returns all user keys in byte order.
func (m *Model) SortedKeys() [][]byte {
	out := make([][]byte, 0, len(m.Keys))
	for k := range m.Keys {
		out = append(out, []byte(k))
	}
	sort.Slice(out, func(i, j int) bool { return bytes.Compare(out[i], out[j]) < 0 })
	return out
}

// IterOpts mirrors badger.IteratorOptions as far as results are concerned.
type IterOpts struct {
	Reverse     bool
	AllVersions bool
	Prefix      []byte
	SinceTs     uint64
	KeyIter     []byte // non-nil: NewKeyIterator(key): all versions of exactly that key
}

// Item is one expected iterator result.
type Item struct {
	Key       []byte
	Version   uint64
	Val       []byte
	UserMeta  byte
	ExpiresAt uint64
	Dead      bool // IsDeletedOrExpired
	Discard   bool
	Pending   bool // comes from the transaction's own pending writes
}

// Scan computes the exact item sequence an iterator of a transaction reading at readTs must
// yield after Seek(seek) (seek == nil: Rewind), looping `for ; it.Valid(); it.Next()`.
// overlay holds the transaction's pending writes (they appear at version readTs and win over a
// committed entry with the same internal key). Seeks outside the Prefix are not supported.
func (m *Model) Scan(readTs uint64, overlay map[string]Ver, o IterOpts, seek []byte) []Item {
	prefix := o.Prefix
	all := o.AllVersions
	if o.KeyIter != nil {
		prefix = o.KeyIter
		all = true
	}
	// 1. candidate keys
	keyset := map[string]struct{}{}
	for k := range m.Keys {
		keyset[k] = struct{}{}
	}
	for k := range overlay {
		keyset[k] = struct{}{}
	}
	keys := make([]string, 0, len(keyset))
	for k := range keyset {
		keys = append(keys, k)
	}
	sort.Strings(keys)

	var items []Item // ascending key, descending version
	for _, k := range keys {
		var vs []Ver
		pend, hasPend := overlay[k]
		if hasPend {
			p := pend
			p.Ts = readTs
			vs = append(vs, p)
		}
		for _, v := range m.Keys[k] {
			if v.Ts > readTs {
				continue
			}
			if hasPend && v.Ts == readTs {
				continue // same internal key: the pending write wins
			}
			vs = append(vs, v)
		}
		// SinceTs hides versions at or below it before anything else.
		if o.SinceTs > 0 {
			kept := vs[:0:0]
			for _, v := range vs {
				if v.Ts > o.SinceTs {
					kept = append(kept, v)
				}
			}
			vs = kept
		}
		if len(vs) == 0 {
			continue
		}
		mk := func(v Ver) Item {
			return Item{Key: []byte(k), Version: v.Ts, Val: v.Val, UserMeta: v.UserMeta, ExpiresAt: v.ExpiresAt,
				Dead: m.Dead(v), Discard: v.Discard, Pending: hasPend && v.Ts == readTs}
		}
		if all {
			for _, v := range vs {
				items = append(items, mk(v))
			}
		} else if !m.Dead(vs[0]) {
			items = append(items, mk(vs[0]))
		}
	}
	if o.Reverse {
		for i, j := 0, len(items)-1; i < j; i, j = i+1, j-1 {
			items[i], items[j] = items[j], items[i]
		}
	}
	// 2. landing position
	start := 0
	target := seek
	if target == nil {
		target = prefix // Rewind == Seek(Prefix)
	}
	if len(target) > 0 {
		start = len(items)
		for i, it := range items {
			c := bytes.Compare(it.Key, target)
			if (!o.Reverse && c >= 0) || (o.Reverse && c <= 0) {
				start = i
				break
			}
		}
	}
	// 3. yield while the current item satisfies Valid()
	var out []Item
	for _, it := range items[start:] {
		if o.KeyIter != nil {
			if !bytes.Equal(it.Key, o.KeyIter) {
				break
			}
		} else if !bytes.HasPrefix(it.Key, prefix) {
			break
		}
		out = append(out, it)
	}
	return out
}

// MustRetain returns, for key, the versions that every compaction sequence must have kept when
// no compaction ever saw a discard watermark above w (C13): everything newer than w, then below
// it the walk newest->oldest keeps merge entries and the first n non-merge versions, stopping at
// (and not requiring) a delete / expired entry, and stopping after a discard-earlier entry.
func (m *Model) MustRetain(key []byte, w uint64, n int) []uint64 {
	var out []uint64
	count := 0
	for _, v := range m.Keys[string(key)] {
		if v.Ts > w {
			out = append(out, v.Ts)
			continue
		}
		if v.Merge {
			out = append(out, v.Ts)
			continue
		}
		count++
		if m.Dead(v) {
			break // may be kept as a tombstone or dropped
		}
		out = append(out, v.Ts)
		if v.Discard || count == n {
			break
		}
	}
	return out
}
